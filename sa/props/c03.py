''' C03 — a COSE integrity block verifies iff nothing it covers was altered (structural clauses). '''
import ast
from ..core import AnalysisError, walk_local, calls_in, call_name, dotted, src, self_attr, kwarg, enclosing
from ..lib import (FuncView, pm, method_calls, one, at_least, stores_to_self_attr, const_str, path_text)
from ..cfg import handler_names
from .. import norm

SEC = 'bp/app/bpsec.py'
MSG_CLASSES = ('Mac0Message', 'MacMessage', 'Sign1Message', 'SignMessage', 'Enc0Message', 'EncMessage')


def check(chk, thorough=False):
    tree = chk.tree
    chk.run('C03.a', 'R-WHO+R-FLOW', 'one AAD construction for both directions: every COSE message built for a BIB gets external_aad from get_external_aad(); the verifier re-attaches the target data and sets the same AAD before returning', lambda ob: c03a(tree, ob, 'apply_bib'), floor=5)
    chk.run('C03.b', 'R-FLOW', 'the AAD depends on the security source, the canonical scope map, per-block metadata / data under their scope bits, the primary block, and the protected parameters', lambda ob: c03b(tree, ob), floor=7)
    chk.run('C03.c', 'R-FLOW', 'verdict flow is fail-closed: success only from a pycose verify result, exceptions and malformed result arrays fail, a later success never erases an earlier failure', lambda ob: c03c(tree, ob, 'bib'), floor=8)
    chk.run('C03.e', 'R-TRUTH', 'the AAD is rebuilt from decoded blocks, so decoding must preserve every bit of flags and values (= C02.e)', lambda ob: _c02e(tree, ob), floor=20)
    chk.run('C03.f', 'R-NOPATH', 'a verification that raises or reports failure is collected as a security failure of the bundle (= C12.b)', lambda ob: _c12b(tree, ob), floor=8)
    chk.run('C03.p', 'R-WHO', 'each result is verified with the key it names itself: the additional headers of the operation, shared by all targets, are never written while results are handled', lambda ob: addl_headers_read_only(tree, ob), floor=4)
    chk.run('C03.g', 'R-WHO', 'the verifier takes the scope map and the protected parameters into the AAD exactly as they arrived in the block (no normalising, masking or re-encoding), so any change to them changes the AAD', lambda ob: c03g(tree, ob), floor=8)
    chk.run('C03.h', 'R-GUARD', 'the data a MAC is checked over is the block data as received: parsed payloads are not written back over it before verification (= C02.d)', lambda ob: __import__('sa.props.c02', fromlist=['c02d']).c02d(tree, ob), floor=3)
    chk.run('C03.i', 'R-GUARD', 'the structure check of a security block judges each target by itself: an unmodified block with several targets is not refused (= C12.g)', lambda ob: __import__('sa.props.c12', fromlist=['c12g']).c12g(tree, ob), floor=2)
    chk.run('C03.j', 'R-PAIR', 'each certificate of a PEM chain file is parsed from its own lines: the line accumulator is emptied after every certificate (else every entry of the chain is the first certificate again)', lambda ob: c03j(tree, ob), floor=1)
    chk.run('C03.k', 'R-FRESH', 'each target of a policy gets its own operation, so the block lists every target once and every target is covered by its own MAC (= C16.f)', lambda ob: __import__('sa.props.c16', fromlist=['c16f']).c16f(tree, ob), floor=2)
    chk.run('C03.l', 'R-SCHEMA', 'a null in the place of an endpoint ID is refused on decode (the AAD re-encodes the primary block and the security source: null would re-encode as dtn:none and still verify) (= C08.e clause)', lambda ob: __import__('sa.props.c08', fromlist=['eid_null_refused']).eid_null_refused(tree, ob), floor=1)
    chk.run('C03.m', 'R-SCHEMA', 'the decode is faithful to the item that arrived (types, endpoint ID normal form, deterministic encoding): the AAD re-encodes decoded blocks, another spelling of a covered value would still verify (= C08.e)', lambda ob: __import__('sa.props.c08', fromlist=['c08e']).c08e(tree, ob), floor=30)
    chk.run('C03.n', 'R-ORDER', 'on receive the confidentiality block is taken off before the integrity block over the same target is verified (the MAC was computed over the plaintext): an unaltered bundle with both verifies (= C12.a)', lambda ob: __import__('sa.props.c12', fromlist=['c12a']).c12a(tree, ob), floor=5)
    chk.run('C03.o', 'R-TRUTH', 'a signer certificate is accepted for the security source only by exact match of the node ID with an identifier of the certificate (= C12.n = C15.c clause)', lambda ob: __import__('sa.props.c15', fromlist=['match_id_exact']).match_id_exact(tree, ob), floor=1)
    chk.run('C03.d', 'R-ORDER', 'a verification key comes only from the symmetric store by kid, or from a chain that was validated and whose node id matched; every other path raises', lambda ob: c03d(tree, ob), floor=4)


def _c02e(tree, ob):
    from .c02 import c02e
    return c02e(tree, ob)


def _msg_ctors(func):
    return [c for c in calls_in(func) if (call_name(c) or '') in MSG_CLASSES]


def c03a(tree, ob, meth):
    fv = FuncView(tree, SEC, 'CoseContext.' + meth)
    ctors = _msg_ctors(fv.func)
    ob.require(ctors, 'no COSE message construction in ' + meth)
    for c in ctors:
        aad = kwarg(c, 'external_aad')
        val = fv.value_at(aad, c, depth=1) if aad is not None else None
        if val is None or pm('$s.get_external_aad()', val) is None:
            ob.violate(SEC, fv.qual, '{}(external_aad={})'.format(call_name(c), src(aad) if aad is not None else 'missing'),
                       'a COSE message is produced without the external AAD from get_external_aad(): context binding is lost', c)
            continue
        pay = kwarg(c, 'payload')
        pv = fv.value_at(pay, c, keep=('tgt_blk',)) if pay is not None else None
        if pv is None or pm("tgt_blk.getfieldval('btsd')", pv) is None:
            ob.violate(SEC, fv.qual, '{}(payload={})'.format(call_name(c), src(pay) if pay is not None else 'missing'), 'the protected payload is not the target block data', c)
            continue
        # the AAD is computed for this target: secopctx.tgt_blk = tgt_blk dominates the AAD call
        aadcall = None
        if isinstance(aad, ast.Name):
            rd = fv.reaching_defs(aad.id, c)
            aadcall = rd[0][0] if len(rd) == 1 else None
        ctxname = src(pm('$s.get_external_aad()', val)['s'])
        sets = [n for n in walk_local(fv.func) if isinstance(n, ast.Assign) and src(n.targets[0]) == ctxname + '.tgt_blk' and src(n.value) == 'tgt_blk']
        if aadcall is None or not sets or not fv.dominates(sets[0], aadcall)[0] or fv.node(aadcall) not in fv.cfg.reachable([fv.node(sets[0])]):
            ob.violate(SEC, fv.qual, src(c)[:60], 'the AAD is not computed for the current target block', c)
        else:
            ob.site(SEC, c, '{} in {}: payload = target data, AAD = get_external_aad() for this target'.format(call_name(c), meth))
    # targets and results are parallel arrays: both must follow the order of the same operation list
    blocks = [c for c in calls_in(fv.func) if (call_name(c) or '') in ('BlockIntegrityBlock', 'BlockConfidentialityBlock')]
    for b in blocks:
        tg = kwarg(b, 'targets')
        loops = [n for n in walk_local(fv.func) if isinstance(n, ast.For) and any(pm('target_result.append($r)', c) is not None for c in calls_in(n))]
        if tg is None or not loops:
            raise AnalysisError('{}: cannot find the targets / results construction in {}'.format(ob.oid, meth))
        seq = src(loops[0].iter)
        var = src(loops[0].target)
        if pm('[{v}.tgt_blk_num for {v} in {s}]'.format(v=var, s=seq), tg) is None and pm('[$x.tgt_blk_num for $x in {}]'.format(seq), tg) is None:
            ob.violate(SEC, fv.qual, 'targets=' + src(tg), 'the target list is not built in the order of the operation list that the results follow: '
                       'when they differ each target is paired with another target\'s result and an unaltered bundle fails verification', b)
        else:
            ob.site(SEC, b, meth + ': targets and results follow the same operation order')
    # one AAD builder
    builders =[(q, f) for (r, q, f) in tree.all_functions([SEC]) if 'external_aad' in f.name or f.name.endswith('_aad')]
    if len(builders) != 1:
        ob.violate(SEC, 'CoseSecOpCtx', 'get_external_aad', 'more than one AAD construction exists: {}'.format([q for (q, f) in builders]), builders[0][1] if builders else None)
    # verifier side
    fd = FuncView(tree, SEC, 'CoseSecOpCtx.decode_msg')
    rets = [r for r in walk_local(fd.func) if isinstance(r, ast.Return)]
    r = one(rets, 'return in decode_msg', ob)
    mobj = src(r.value)
    att = [n for n in walk_local(fd.func) if isinstance(n, ast.Assign) and pm('$m[2]', n.targets[0]) is not None]
    a = one(att, 'payload re-attachment in decode_msg', ob)
    if pm("self.tgt_blk.getfieldval('btsd')", a.value) is None:
        ob.violate(SEC, fd.qual, src(a), 'the payload verified is not the actual target block data', a)
    elif not fd.cfg.must_pass(fd.cfg.entry, fd.node(r), {fd.node(a)})[0]:
        ob.violate(SEC, fd.qual, src(a), 'the target block data is re-attached only conditionally: a message carrying its own inline payload is verified against that copy instead of the block', a)
    else:
        ob.site(SEC, a, 'decode_msg always re-attaches the target block data')
    froms = [n for n in walk_local(fd.func) if isinstance(n, (ast.Assign, ast.Return)) and isinstance(n.value, ast.Call) and isinstance(n.value.func, ast.Attribute) and n.value.func.attr == 'from_cose_obj']
    f = one(froms, 'from_cose_obj', ob)
    if isinstance(f, ast.Return):
        # the message object is returned as built: nothing can have been set on it
        ob.violate(SEC, fd.qual, src(f)[:70], 'the verifier does not bind the external AAD at all: context changes go undetected', f)
        return
    if src(f.value.args[0]) != src(pm('$m[2]', a.targets[0])['m']) or fd.node(f) not in fd.cfg.reachable([fd.node(a)]):
        ob.violate(SEC, fd.qual, src(f), 'the message object is built before / without the re-attached payload', f)
    strict = kwarg(f.value, 'allow_unknown_attributes')
    if not (isinstance(strict, ast.Constant) and strict.value is False):
        ob.violate(SEC, fd.qual, src(f), 'unknown header attributes are tolerated when decoding', f)
    sets = [n for n in walk_local(fd.func) if isinstance(n, ast.Assign) and src(n.targets[0]) == mobj + '.external_aad']
    if not sets:
        ob.violate(SEC, fd.qual, mobj + '.external_aad = self.get_external_aad()', 'the verifier does not bind the external AAD at all: context changes go undetected', r)
        sets = [r]
    s = sets[-1]
    if not isinstance(s, ast.Assign):
        pass
    elif pm('self.get_external_aad()', s.value) is None or not fd.cfg.must_pass(fd.cfg.entry, fd.node(r), {fd.node(s)})[0]:
        ob.violate(SEC, fd.qual, src(s), 'the verifier does not bind the same external AAD', s)
    else:
        ob.site(SEC, s, 'decode_msg sets external_aad = get_external_aad()')
    # the only producer of message objects on the verify side
    for name in ('verify_bib_target', 'verify_bcb_target'):
        fvv = FuncView(tree, SEC, 'CoseContext.' + name)
        objs = [st for (st, v) in norm.local_assigns(fvv.func, 'msg_obj')]
        if len(objs) != 1 or pm('secop.decode_msg(result)', objs[0].value) is None:
            ob.violate(SEC, fvv.qual, 'msg_obj = ...', 'message objects are produced other than by decode_msg', fvv.func)
        else:
            ob.site(SEC, objs[0], name + ': msg_obj only from decode_msg')


def _c12b(tree, ob):
    from .c12 import c12b
    return c12b(tree, ob)


def c03b(tree, ob):
    fv = FuncView(tree, SEC, 'CoseSecOpCtx.get_external_aad')
    rets = [r for r in walk_local(fv.func) if isinstance(r, ast.Return)]
    r = one(rets, 'return in get_external_aad', ob)
    name = src(r.value)
    defs = norm.local_assigns(fv.func, name)
    init = [d for d in defs if isinstance(d[0], ast.Assign)]
    i = one(init, 'AAD initialisation', ob)
    iv = fv.value_at(i[1], i[0], keep=('aad_scope_enc',))
    if src(iv) != 'self.ssrc_enc + aad_scope_enc':
        ob.violate(SEC, fv.qual, src(i[0]), 'AAD does not start with the encoded security source followed by the scope map', i[0])
    else:
        ob.site(SEC, i[0], 'AAD = security source || scope')
    sc = fv.value_at(ast.parse('aad_scope_enc', mode='eval').body, i[0])
    if pm('cbor2.dumps(self.aad_scope, canonical=True)', sc) is None:
        ob.violate(SEC, fv.qual, 'aad_scope_enc = ' + src(sc), 'the scope map is not canonically encoded', i[0])
    else:
        ob.site(SEC, i[0], 'scope canonically encoded')
    adds = [d[0] for d in defs if isinstance(d[0], ast.AugAssign)]
    want = {
        'primary': lambda st: pm('bytes(blk)', st.value) is not None and fv.has(st, 'is_primary', True) and fv.has(st, 'flags & CoseContext.AadScopeFlag.METADATA', True),
        'metadata': lambda st: "blk.build()[:3]" in src(st.value) and fv.has(st, 'is_primary', False) and fv.has(st, 'flags & CoseContext.AadScopeFlag.METADATA', True),
        # the data contribution depends on the BTSD bit only: an entry may bind data without metadata
        'btsd': lambda st: pm('cbor2.dumps(bytes(blk.btsd))', st.value) is not None and fv.has(st, 'is_primary', False) and fv.has(st, 'flags & CoseContext.AadScopeFlag.BTSD', True)
        and not any('AadScopeFlag.METADATA' in t for (t, p) in (fv.facts(st) or ())),
        'protected': lambda st: pm('cbor2.dumps(self.addl_protected)', st.value) is not None and enclosing(st, (ast.For,)) is None,
    }
    text = {'primary': 'whole primary block under METADATA', 'metadata': 'type/number/flags of a scoped block under METADATA',
            'btsd': 'data of a scoped block under BTSD', 'protected': 'additional protected parameters (always)'}
    for key, pred in want.items():
        hit = [st for st in adds if isinstance(st.op, ast.Add) and pred(st)]
        if len(hit) == 1:
            ob.site(SEC, hit[0], 'AAD += ' + text[key])
        else:
            ob.violate(SEC, fv.qual, key, 'the AAD does not include the {}'.format(text[key]), fv.func)
    extra = [st for st in adds if not any(pred(st) for pred in want.values())]
    for st in extra:
        ob.violate(SEC, fv.qual, src(st), 'unrecognised contribution to the AAD', st)
    # which block a scope entry denotes
    sel = {'blk_num == -1': 'self.tgt_blk', 'blk_num == -2': 'self.sec_blk', 'blk_num == 0': 'self.ctr.bundle.primary'}
    for cond, val in sel.items():
        sets = [n for n in walk_local(fv.func) if isinstance(n, ast.Assign) and src(n.targets[0]) == 'blk' and src(n.value) == val]
        if len(sets) != 1 or not fv.has(sets[0], cond, True):
            ob.violate(SEC, fv.qual, '{} -> {}'.format(cond, val), 'scope key does not select {}'.format(val), fv.func)
    others = [n for n in walk_local(fv.func) if isinstance(n, ast.Assign) and src(n.targets[0]) == 'blk' and pm('self.ctr.block_num(blk_num)', n.value) is not None]
    if len(others) != 1:
        ob.violate(SEC, fv.qual, 'blk = self.ctr.block_num(blk_num)', 'other scope keys do not select the block with that number', fv.func)
    loop = [n for n in walk_local(fv.func) if isinstance(n, ast.For)]
    lp = one(loop, 'scope loop', ob)
    itv = fv.value_at(lp.iter, lp)
    if pm('cbor2.loads(cbor2.dumps(self.aad_scope, canonical=True)).items()', itv) is None:
        ob.violate(SEC, fv.qual, src(lp.iter), 'scoped blocks are not visited in canonical key order', lp)
    else:
        ob.site(SEC, lp, 'scope entries visited in canonical order')
    # crc refresh of the primary before it is bound in
    up = [c for c in calls_in(fv.func) if pm('blk.update_crc()', c) is not None]
    # scope literal used by the source: keys 0 and -1 with METADATA
    for meth in ('apply_bib', 'apply_bcb'):
        fa = FuncView(tree, SEC, 'CoseContext.' + meth)
        lits = [st for (st, v) in norm.local_assigns(fa.func, 'aad_scope')]
        l = one(lits, 'scope literal in ' + meth, ob)
        ok = isinstance(l.value, ast.Dict)
        if ok:
            d = {src(k): src(v) for (k, v) in zip(l.value.keys, l.value.values)}
            ok = d.get('0') in ('1', '3') and d.get('-1') in ('1', '3')
        if not ok:
            ob.violate(SEC, fa.qual, src(l), 'the source does not bind the primary block (0) and the target metadata (-1) into the AAD', l)
        else:
            ob.site(SEC, l, meth + ': scope {0: METADATA, -1: METADATA}')
        ctxs = [c for c in calls_in(fa.func) if call_name(c) == 'CoseSecOpCtx']
        c = one(ctxs, 'CoseSecOpCtx construction in ' + meth, ob)
        kws = {k.arg: src(k.value) for k in c.keywords}
        if kws.get('aad_scope') != 'aad_scope' or kws.get('ssrc_enc') != 'ssrc_enc' or kws.get('addl_protected') != 'addl_protected' or kws.get('ctr') != 'ctr':
            ob.violate(SEC, fa.qual, src(c)[:100], 'the source-side context does not carry the scope / security source / protected parameters that are written into the block', c)
        par = [x for x in calls_in(fa.func) if call_name(x) == 'TypeValuePair' and src(kwarg(x, 'type_code')) == '5']
        if not par or src(kwarg(par[0], 'value')) != 'aad_scope':
            ob.violate(SEC, fa.qual, 'TypeValuePair(type_code=5, value=aad_scope)', 'the scope used for the AAD is not the one announced in the block parameters', fa.func)


def c03c(tree, ob, kind):
    tgt = FuncView(tree, SEC, 'CoseContext.verify_{}_target'.format(kind))
    if kind == 'bib':
        var = 'valid'
        rets_ok = [r for r in walk_local(tgt.func) if isinstance(r, ast.Return) and isinstance(r.value, ast.Constant) and r.value.value is None]
        r = one(rets_ok, 'success return in verify_bib_target', ob)
        if not tgt.has(r, var, True):
            ob.violate(SEC, tgt.qual, 'return None', 'success is returned without the verdict being true', r)
        else:
            ob.site(SEC, r, 'success only under `valid`')
        for (st, v) in norm.local_assigns(tgt.func, var):
            ok = False
            if isinstance(st, ast.Assign) and isinstance(v, ast.Constant) and v.value is False:
                ok = True
            elif isinstance(st, ast.Assign) and isinstance(v, ast.Call) and (call_name(v) or '').startswith('self._verify_bib_'):
                ok = True
            elif isinstance(st, ast.AugAssign) and isinstance(st.op, ast.BitOr) and isinstance(st.value, ast.Name):
                rd = tgt.reaching_defs(st.value.id, st)
                ok = len(rd) == 1 and isinstance(rd[0][1], ast.Call) and (call_name(rd[0][1]) or '').startswith('self._verify_bib_')
            if ok:
                ob.site(SEC, st, 'verdict write: ' + src(st)[:60])
            else:
                ob.violate(SEC, tgt.qual, src(st), 'the verdict is assigned from something other than a verification result or False', st)
        hs = [h for h in walk_local(tgt.func) if isinstance(h, ast.ExceptHandler)]
        h = one(hs, 'exception handler in verify_bib_target', ob)
        sets = [n for n in walk_local(h) if isinstance(n, ast.Assign) and src(n.targets[0]) == var]
        if handler_names(h) not in (['Exception'], [None]) or not sets or not (isinstance(sets[-1].value, ast.Constant) and sets[-1].value.value is False):
            ob.violate(SEC, tgt.qual, 'except Exception: valid = False', 'an exception during verification does not fail the target', h)
        else:
            ob.site(SEC, h, 'exception -> not valid')
        fails = [r2 for r2 in walk_local(tgt.func) if isinstance(r2, ast.Return) and r2 is not r]
        if not fails or any('FAILED_SEC' not in src(x.value) for x in fails if x.value is not None):
            ob.violate(SEC, tgt.qual, 'return FAILED_SEC', 'a failed target does not report a security failure', tgt.func)
        for sub in ('_verify_bib_mac0', '_verify_bib_mac', '_verify_bib_sign1', '_verify_bib_sign'):
            fs = FuncView(tree, SEC, 'CoseContext.' + sub)
            for x in [x for x in walk_local(fs.func) if isinstance(x, ast.Return)]:
                okr = (isinstance(x.value, ast.Constant) and x.value.value is False) or \
                      (isinstance(x.value, ast.Call) and isinstance(x.value.func, ast.Attribute) and x.value.func.attr in ('verify_tag', 'verify_signature') and dotted(x.value.func.value) == 'msg_obj')
                if not okr:
                    ob.violate(SEC, fs.qual, src(x), 'a result other than the pycose verification outcome (or False) is returned', x)
                else:
                    ob.site(SEC, x, sub + ' returns ' + src(x.value)[:40])
            keys = [n for n in walk_local(fs.func) if isinstance(n, ast.Assign) and src(n.targets[0]).endswith('.key')]
            if not keys or pm('self._get_cose_key(secop.ctr, $h, secop.sec_blk.payload.source)', keys[0].value) is None:
                ob.violate(SEC, fs.qual, 'key = self._get_cose_key(...)', 'the verification key is not obtained through _get_cose_key for the security source of this block', fs.func)
    _verdict_accumulation(tree, ob, kind)


def _verdict_accumulation(tree, ob, kind):
    ''' verify_bib / verify_bcb: per-target loop accumulates failures. '''
    fv = FuncView(tree, SEC, 'CoseContext.verify_' + kind)
    blk = kind
    chk = [r for r in walk_local(fv.func) if isinstance(r, ast.Return) and fv.has(r, 'secop.check_secblk()', False)]
    if not chk or 'FAILED_SEC' not in src(chk[0].value):
        ob.violate(SEC, fv.qual, 'if not secop.check_secblk(): return FAILED_SEC', 'a structurally inconsistent security block (duplicate parameter / result ids) is not failed', fv.func)
    else:
        ob.site(SEC, chk[0], 'duplicate parameter/result ids fail the block')
    loops = [n for n in walk_local(fv.func) if isinstance(n, ast.For) and 'targets' in src(fv.value_at(n.iter, n))]
    lp = one(loops, 'target loop in verify_' + kind, ob)
    if pm('enumerate({}.payload.targets)'.format(blk), lp.iter) is None:
        if 'zip(' in src(fv.value_at(lp.iter, lp)):
            ob.violate(SEC, fv.qual, 'for ... in ' + src(lp.iter), 'targets and results are paired with zip(): a target without a result array is silently skipped instead of failing', lp)
            return
        raise AnalysisError('unrecognised target loop ' + src(lp.iter))
    ix = src(lp.target.elts[0])
    res = [n for n in walk_local(lp) if isinstance(n, ast.Assign) and pm('{}.payload.results[{}].results'.format(blk, ix), n.value) is not None]
    if not res:
        ob.violate(SEC, fv.qual, 'result_list = {}.payload.results[{}].results'.format(blk, ix), 'the result array is not taken at the index of the target', lp)
    else:
        ob.site(SEC, res[0], 'results indexed by target position (a missing entry raises -> failure)')
    init = [st for (st, v) in norm.local_assigns(fv.func, 'failure') if enclosing(st, (ast.For,)) is None]
    if len(init) != 1 or not (isinstance(init[0].value, ast.Constant) and init[0].value.value is None):
        ob.violate(SEC, fv.qual, 'failure = None', 'failure accumulator does not start empty', fv.func)
    for (st, v) in norm.local_assigns(fv.func, 'failure'):
        if enclosing(st, (ast.For,)) is not lp:
            continue
        if isinstance(v, ast.Attribute) and 'ReasonCode' in src(v):
            ob.site(SEC, st, 'wrong result count -> ' + src(v).split('.')[-1])
            if not fv.has(st, 'len(result_list) == 1', False):
                ob.violate(SEC, fv.qual, src(st), 'constant failure is set on a path other than "result count is not one"', st)
            continue
        okv = isinstance(v, ast.Name) and tgt_result(fv, v.id, st, kind)
        if okv and fv.has(st, v.id + ' is None', False):
            ob.site(SEC, st, 'failure overwritten only with a non-None target failure')
        else:
            ob.violate(SEC, fv.qual, src(st), 'the accumulated failure can be overwritten with "no failure": a later target that verifies erases an earlier failed one', st)
    rets = [r for r in walk_local(fv.func) if isinstance(r, ast.Return) and enclosing(r, (ast.If,)) is None]
    if not rets or src(rets[-1].value) != 'failure':
        ob.violate(SEC, fv.qual, 'return failure', 'the accumulated failure is not what is returned', fv.func)
    # each target is looked up and must exist
    tg = [n for n in walk_local(lp) if isinstance(n, ast.Assign) and pm('ctr.block_num($n)', n.value) is not None]
    if not tg:
        ob.violate(SEC, fv.qual, 'tgt_blk = ctr.block_num(tgt_blk_num)', 'the target block is not looked up by its number (a missing target must fail)', lp)
    calls = [c for c in calls_in(lp) if pm('self.verify_{}_target(secop, result)'.format(kind), c) is not None]
    c = one(calls, 'per-target verification call', ob)
    sets = [n for n in walk_local(lp) if isinstance(n, ast.Assign) and src(n.targets[0]) == 'secop.tgt_blk']
    if not sets or not fv.cfg.must_pass(fv.node(lp.iter), fv.node(c), {fv.node(sets[0])})[0] or (tg and src(sets[0].value) != src(tg[0].targets[0])):
        ob.violate(SEC, fv.qual, src(c), 'the target verified is not the block named by the security block', c)
    rv = fv.value_at(c.args[1], c)
    if src(rv) != '{}.payload.results[{}].results[0]'.format(blk, ix):
        ob.violate(SEC, fv.qual, src(c), 'the result verified is not the single result of this target', c)


def tgt_result(fv, name, at, kind):
    rd = fv.reaching_defs(name, at)
    return len(rd) == 1 and isinstance(rd[0][1], ast.Call) and pm('self.verify_{}_target(secop, result)'.format(kind), rd[0][1]) is not None


def _chain_validation(tree, ob):
    ''' the validator gets the whole chain that came with the message -- the first certificate as the end entity, every
    further one as an intermediate -- and a validation context made for THIS bundle: trust roots and other certificates of
    the configuration, and the time to validate at passed in by the caller (the creation time of the bundle).  A context
    kept from an earlier call validates a later bundle at the earlier bundle's time. '''
    fv = FuncView(tree, SEC, 'CoseContext.validate_chain_func')
    tparam = fv.func.args.args[1].arg
    ctxs = [c for c in calls_in(fv.func) if (call_name(c) or '').split('.')[-1] == 'ValidationContext']
    c = one(ctxs, 'ValidationContext construction', ob)
    mom = kwarg(c, 'moment')
    stores = [n for n in walk_local(fv.func) if isinstance(n, ast.Assign) and any(self_attr(t) for t in n.targets)]
    if mom is None or src(mom) != tparam:
        ob.violate(SEC, fv.qual, src(c)[:60], 'the validation context is not made for the time passed in by the caller', c)
    elif stores or not fv.cfg.must_pass(fv.cfg.entry, fv.cfg.exit, {fv.node(c)}, include_exc=False)[0]:
        ob.violate(SEC, fv.qual, 'ValidationContext(..., moment={}) not built on every call'.format(tparam), 'the validation context is kept between calls: a certificate chain is validated at the time of an '
                   'earlier bundle, so a certificate that had expired (or was not yet valid) at the creation time of this bundle is accepted', (stores or [c])[0])
    else:
        ob.site(SEC, c, 'a fresh validation context per call, at the time passed in')
    inner = [f for f in ast.walk(fv.func) if isinstance(f, ast.FunctionDef) and f is not fv.func]
    vf = one(inner, 'inner validate(chain)', ob)
    ch = vf.args.args[0].arg
    vals = [x for x in ast.walk(vf) if isinstance(x, ast.Call) and (call_name(x) or '').split('.')[-1] == 'CertificateValidator']
    v = one(vals, 'CertificateValidator construction', ob)
    ee = kwarg(v, 'end_entity_cert')
    ic = kwarg(v, 'intermediate_certs')
    vc = kwarg(v, 'validation_context')
    if ee is None or src(ee) != ch + '[0]' or ic is None or src(ic) != ch + '[1:]':
        ob.violate(SEC, fv.qual + '.validate', 'CertificateValidator(end_entity_cert={}, intermediate_certs={})'.format(src(ee) if ee is not None else '?', src(ic) if ic is not None else '?'),
                   'the validator is not given the first certificate as end entity and all further ones as intermediates: a signer whose chain ends in an intermediate CA (root not sent) cannot be '
                   'validated, and an unmodified bundle fails', v)
    else:
        ob.site(SEC, v, 'validator gets chain[0] and chain[1:]')
    if vc is None or isinstance(vc, ast.Attribute):
        ob.violate(SEC, fv.qual + '.validate', 'validation_context=' + (src(vc) if vc is not None else '?'), 'the validator does not use the context built for this call', v)


def _cert_store_complete(tree, ob):
    ''' a certificate that came with a bundle is kept unless exactly these octets are already there.  Leaving the function
    early for any other likeness (same subject key, same subject) loses a renewed certificate: a signature that names it
    by thumbprint can then never be verified although nothing was altered. '''
    fv = FuncView(tree, SEC, 'CertificateStore.add_untrusted_cert')
    ob.require(len(fv.func.args.args) >= 2, 'add_untrusted_cert(self, data)')
    dp = fv.func.args.args[1].arg
    stores = [n for n in walk_local(fv.func) if isinstance(n, ast.Assign) and len(n.targets) == 1 and pm('self._certs_by_der[{}]'.format(dp), n.targets[0]) is not None]
    st = one(stores, 'store of the certificate by its octets', ob)
    for r in [x for x in walk_local(fv.func) if isinstance(x, ast.Return)]:
        if fv.dominates(st, r)[0]:
            continue
        if fv.has(r, '{} in self._certs_by_der'.format(dp), True):
            ob.site(SEC, r, 'left early only for the very same octets')
        else:
            ob.violate(SEC, fv.qual, 'return before self._certs_by_der[{}] = ...'.format(dp), 'a certificate is dropped although its octets are not in the store (it only resembles a known one): a renewed '
                       'certificate for a known key is never kept, and a block that names it by thumbprint fails to verify unaltered', r, sure=True)
    ob.site(SEC, st, 'every certificate that is not a repeat of the same octets is stored')


def c03d(tree, ob):
    _chain_validation(tree, ob)
    _cert_store_complete(tree, ob)
    _thumbprint_fresh(tree, ob)
    fv = FuncView(tree, SEC, 'CoseContext._get_cose_key')
    rets = [r for r in walk_local(fv.func) if isinstance(r, ast.Return)]
    ob.require(len(rets) >= 2, 'key returns')
    for r in rets:
        if pm('self.sym_key_store.get(kid_item)', r.value) is not None or pm('self.sym_key_store[kid_item]', r.value) is not None:
            kid = fv.value_at(ast.parse('kid_item', mode='eval').body, r)
            if fv.has(r, 'kid_item in self.sym_key_store', True) and pm('hdr_src.get_attr(headers.KID)', kid) is not None:
                ob.site(SEC, r, 'symmetric key by the message kid')
            else:
                ob.violate(SEC, fv.qual, src(r), 'a symmetric key is returned that is not selected by the message kid', r)
        elif pm('self.extract_cose_key(end_cert.public_key())', r.value) is not None:
            vals = [c for c in calls_in(fv.func) if pm('val_func(found_chain)', c) is not None]
            authn = fv.value_at(ast.parse('authn_nodeid', mode='eval').body, r, depth=1)
            ec = fv.value_at(ast.parse('end_cert', mode='eval').body, r, depth=1)
            bad = []
            if not vals or not fv.dominates(vals[0], r)[0]:
                bad.append('the chain is not validated first')
            vf = fv.value_at(ast.parse('val_func', mode='eval').body, r)
            if pm('self.validate_chain_func($t)', vf) is None:
                bad.append('validation is not done by validate_chain_func')
            if not fv.has(r, 'authn_nodeid', True):
                bad.append('the key is released without the certificate node id having matched the security source (a certificate with no node id, or a different one, is accepted)')
            if pm('tcpcl.session.match_id(secsrc_eid, end_cert, OID_ON_EID, $l, $n)', authn) is None:
                bad.append('node id is not matched against the security source with the bundle-EID other-name')
            if pm('x509.load_der_x509_certificate(found_chain[0], $b)', ec) is None:
                bad.append('the key is not taken from the end-entity certificate of the validated chain')
            if bad:
                ob.violate(SEC, fv.qual, src(r), '; '.join(bad), r)
            else:
                ob.site(SEC, r, 'public key only after chain validation and node-id match')
        else:
            ob.violate(SEC, fv.qual, src(r), 'a key is returned from an unrecognised source', r)
    # everything else raises
    ok, wit = fv.cfg.must_pass(fv.cfg.entry, fv.cfg.exit, {fv.node(r) for r in rets}, include_exc=False)
    if not ok:
        ob.violate(SEC, fv.qual, 'fall-through', 'the function can end without a key and without raising', fv.func, path_text(wit))
    else:
        ob.site(SEC, fv.func, 'every non-returning path raises')
    # validation failure re-raised
    hs = [h for h in walk_local(fv.func) if isinstance(h, ast.ExceptHandler)]
    for h in hs:
        t = h._parent
        if any(pm('val_func(found_chain)', c) is not None for st in t.body for c in calls_in(st)):
            if not any(isinstance(x, ast.Raise) for x in walk_local(h)):
                ob.violate(SEC, fv.qual, 'except ...: (val_func)', 'a chain validation failure is swallowed', h)
            else:
                ob.site(SEC, h, 'validation failure is raised')
    nf = [r for r in walk_local(fv.func) if isinstance(r, ast.Raise) and fv.has(r, 'found_chain', False)]
    if not nf:
        ob.violate(SEC, fv.qual, 'if not found_chain: raise', 'a missing certificate chain does not stop key selection', fv.func)



def addl_headers_read_only(tree, ob):
    """ one CoseSecOpCtx serves every target of a security block.  Its parsed additional headers are defaults for each
    result message; they are only ever read.  A result handler that merges into that mapping (directly, or through a local
    that is the same object) leaves the headers of one result -- its key identifier -- as defaults for the next target:
    a result that names no key is then verified with the key of its neighbour. """
    MUT = ('update', 'setdefault', 'pop', 'popitem', 'clear', '__setitem__', '__delitem__')
    n = 0
    for (r, qual, func) in tree.all_functions([SEC]):
        if qual.endswith('.extract_secblk'):
            continue
        names = set()
        for st in walk_local(func):
            if isinstance(st, ast.Assign) and isinstance(st.value, ast.Attribute) and st.value.attr == 'addl_parsed':
                for t in st.targets:
                    if isinstance(t, ast.Name):
                        names.add(t.id)
        reads = [a for a in walk_local(func) if isinstance(a, ast.Attribute) and a.attr == 'addl_parsed']
        if not reads:
            continue
        n += 1

        def is_it(node):
            return (isinstance(node, ast.Attribute) and node.attr == 'addl_parsed') or (isinstance(node, ast.Name) and node.id in names)
        bad = None
        for x in walk_local(func):
            if isinstance(x, ast.Call) and isinstance(x.func, ast.Attribute) and x.func.attr in MUT and is_it(x.func.value):
                bad = x
            elif isinstance(x, (ast.Assign, ast.AugAssign, ast.Delete)):
                tg = x.targets if isinstance(x, (ast.Assign, ast.Delete)) else [x.target]
                for t in tg:
                    if isinstance(t, ast.Subscript) and is_it(t.value):
                        bad = x
                    if isinstance(x, ast.AugAssign) and is_it(t):
                        bad = x
        if bad is not None:
            ob.violate(SEC, qual, src(bad)[:70], 'the additional headers of the security operation (shared by all targets of the block) are changed while one result is handled: what one '
                       'result carried -- its key identifier -- becomes a default of the next, and a result that names no key verifies with the key of its neighbour', bad, sure=True)
        else:
            ob.site(SEC, reads[0], qual + ': additional headers are only read')
    ob.require(n >= 4, 'readers of addl_parsed: {}'.format(n))


def c03g(tree, ob):
    ''' get_external_aad() encodes self.aad_scope and self.addl_protected.  On the verifying side both are filled by
    extract_secblk() from the parameters of the received block.  They are authenticated only if they are taken as they
    arrived: a value that is normalised on the way (undefined flag bits masked off, a map decoded and encoded again) is the
    same for many received values, and a change among those goes unnoticed. '''
    cls = tree.klass(SEC, 'CoseSecOpCtx')
    fv = FuncView(tree, SEC, 'CoseSecOpCtx.extract_secblk')
    want = {'aad_scope': ('5', ('dict(param.value)', 'param.value')), 'addl_protected': ('3', ('bytes(param.value)', 'param.value'))}
    loops = [n for n in walk_local(fv.func) if isinstance(n, ast.For) and 'self.sec_blk.payload.parameters' in src(n.iter)]
    loop = one(loops, 'loop over the block parameters in extract_secblk', ob)
    ob.require(isinstance(loop.target, ast.Name), 'parameter loop variable')
    pv = loop.target.id
    for (attr, (code, forms)) in sorted(want.items()):
        stores = [(f, st, k, v) for (f, st, k, v) in stores_to_self_attr(cls, attr)]
        taken = 0
        for (f, st, k, v) in stores:
            if f.name in ('__init__', '__post_init__'):
                continue
            if f is not fv.func:
                ob.violate(SEC, 'CoseSecOpCtx.' + f.name, src(st)[:70], 'the {} bound into the AAD is rewritten outside the extraction from the block'.format(attr), st)
                continue
            if k == 'assign' and (isinstance(v, ast.Constant) or (isinstance(v, ast.Dict) and all(isinstance(x, (ast.Constant, ast.UnaryOp)) for x in v.keys + v.values))):
                ob.site(SEC, st, '{}: default when the parameter is absent'.format(attr))
                continue
            val = fv.value_at(v, st, depth=3, keep=(pv,)) if k == 'assign' else None
            if val is not None and src(val) in [t.replace('param', pv) for t in forms] and fv.has(st, '{}.type_code == {}'.format(pv, code), True) and enclosing(st, ast.For) is loop:
                taken += 1
                ob.site(SEC, st, '{} taken verbatim from parameter {}'.format(attr, code))
                # ... and from one encoding only: bytes() / dict() also take an array of integers / of pairs, a second
                # encoding of the same value that would verify although the block was altered
                typ = 'dict' if attr == 'aad_scope' else 'bytes'
                if fv.has(st, 'isinstance({}.value, {})'.format(pv, typ), True):
                    ob.site(SEC, st, 'parameter {} accepted as a {} item only'.format(code, typ))
                else:
                    ob.violate(SEC, fv.qual, src(st)[:80] + ' without isinstance({}.value, {})'.format(pv, typ), 'parameter {} is converted with {}() from whatever item arrived: an array of integers / pairs '
                               'in its place gives the same AAD, so that alteration of the block still verifies'.format(code, typ), st)
            else:
                ob.violate(SEC, fv.qual, src(st)[:90], 'the {} that goes into the AAD is not the value of parameter {} as it arrived (normalised, masked or re-encoded): '
                           'received values that differ only in what the rewrite drops give the same AAD, and the change between them is not detected'.format(attr, code), st)
        if not taken and not any(f is fv.func for (f, st, k, v) in stores):
            ob.violate(SEC, fv.qual, 'self.{} = <parameter {}>'.format(attr, code), 'the received parameter {} is not bound into the AAD'.format(code), fv.func)
    # the MAC / signature / ciphertext envelope itself: the result value is decoded only from a byte string, and all of it
    fd = FuncView(tree, SEC, 'CoseSecOpCtx.decode_msg')
    loose = [c for c in calls_in(fd.func) if (call_name(c) or '') in ('cbor2.loads', 'loads')]
    strict = [c for c in calls_in(fd.func) if (call_name(c) or '') in ('cbor2.load', 'load')]
    opens = [c for c in calls_in(fd.func) if pm('io.BytesIO($x)', c) is not None or pm('BytesIO($x)', c) is not None]
    tells = [r for r in walk_local(fd.func) if isinstance(r, ast.Raise) and any('.tell()' in t and 'len(' in t for (t, p) in (fd.facts(r) or ()))]
    if loose:
        ob.violate(SEC, fd.qual, src(loose[0]), 'the result value is decoded as one CBOR item and whatever follows it is ignored: a MAC / signature / ciphertext envelope altered by appended octets '
                   'still verifies', loose[0])
    elif not (strict and opens and tells):
        ob.violate(SEC, fd.qual, 'cbor2.load(buf) ... buf.tell() != len(...)', 'the COSE message is not decoded from the whole result value', fd.func)
    else:
        x = opens[0].args[0]
        full = fd.value_at(x, opens[0], depth=3)
        if src(full) not in ("result.getfieldval('value')", 'result.value'):
            ob.violate(SEC, fd.qual, src(opens[0]), 'the COSE message is not decoded from the result value of the block', opens[0])
        elif isinstance(x, ast.Name) and fd.has(opens[0], 'isinstance({}, bytes)'.format(x.id), True):
            ob.site(SEC, opens[0], 'result value decoded from a byte string item only')
            ob.site(SEC, tells[0], 'octets behind the COSE message are an error')
        else:
            ob.violate(SEC, fd.qual, src(opens[0]) + ' with ' + src(full)[:50], 'the result value is converted from whatever item arrived (bytes() also takes an array of integers): a result re-encoded '
                       'that way is an alteration of the MAC / signature that still verifies', opens[0])


def c03j(tree, ob):
    ''' Sign1 verification walks sign_cert_file / verify_ca_file chains read by load_pem_chain().  The loop gathers lines
    into an accumulator and parses it at each END line; unless the accumulator is emptied on every path from that parse
    back to the loop head, the second parse starts with the first certificate's lines and returns the first certificate. '''
    rel = 'bp/crypto.py'
    fv = FuncView(tree, rel, 'load_pem_chain')
    parses = [c for c in calls_in(fv.func) if (call_name(c) or '').endswith('load_pem_x509_certificate') and c.args and isinstance(c.args[0], ast.Name)]
    pc = one(parses, 'certificate parse in load_pem_chain', ob)
    acc = pc.args[0].id
    loop = enclosing(pc, (ast.For, ast.While))
    ob.require(loop is not None, 'the parse is not inside a loop')
    resets = [n for n in walk_local(loop) if isinstance(n, ast.Assign) and src(n.targets[0]) == acc and isinstance(n.value, ast.Constant) and n.value.value in (b'', '')]
    head = fv.node(loop.iter if isinstance(loop, ast.For) else loop.test)
    ok = bool(resets) and fv.cfg.must_pass(fv.node(pc), head, {fv.node(r) for r in resets}, include_exc=False)[0]
    if ok:
        ob.site(rel, resets[0], 'accumulator emptied after each certificate')
    else:
        ob.violate(rel, 'load_pem_chain', '{} not reset after {}'.format(acc, src(pc)[:50]), 'the lines of a parsed certificate stay in the accumulator: every later entry of the chain file parses as the first '
                   'certificate again, so a signer certified through an intermediate or under a second root cannot be verified and an unmodified bundle fails', pc)


def _thumbprint_fresh(tree, ob):
    ''' a certificate is found by the thumbprint the block names, computed with the hash algorithm the block names.  The
    thumbprint compared is computed from the certificate octets with THAT algorithm at the time of the search; remembered per
    certificate (whatever algorithm came first), a block that names the same certificate under another algorithm never
    finds it and fails although nothing was altered. '''
    fv = FuncView(tree, SEC, 'CertificateStore.find_chain')
    cmps = [n for n in fv.cfg.nodes if n.kind == 'cond' and isinstance(n.ast, ast.Compare) and 'want_tprint' in src(n.ast)]
    ob.require(cmps, 'comparison with the wanted thumbprint in find_chain')
    for c in cmps:
        for side in [c.ast.left] + list(c.ast.comparators):
            if isinstance(side, ast.Name) and side.id != 'want_tprint':
                for (dst, v) in fv.reaching_defs(side.id, c.ast):
                    if v is None or not isinstance(v, ast.AST):
                        continue
                    if isinstance(v, ast.Call) and isinstance(v.func, ast.Attribute) and v.func.attr == 'compute_hash':
                        ob.site(SEC, c.ast, 'thumbprint computed with the named algorithm at the time of the search')
                    else:
                        ob.violate(SEC, fv.qual, '{} = {}'.format(side.id, src(v)[:50]), 'the thumbprint compared with the wanted one is not (only) computed from the certificate with the algorithm of this search '
                                   'but taken from a memo: under another hash algorithm the same certificate is never found, and an unaltered block fails to verify', dst if isinstance(dst, ast.AST) else c.ast, sure=True)
