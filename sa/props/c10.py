''' C10 — BP agent processes each received bundle at most once and routes by first match (structural clauses). '''
import ast
from ..core import AnalysisError, walk_local, calls_in, call_name, dotted, src, self_attr, is_logging_call, enclosing
from ..lib import (FuncView, pm, method_calls, one, at_least, stores_to_self_attr, const_str, path_text)
from .. import norm
from .common import chain_steps

AGENT = 'bp/agent.py'
UTIL = 'bp/util.py'
BASE = 'bp/app/base.py'


def check(chk, thorough=False):
    tree = chk.tree
    chk.run('C10.a', 'R-ORDER', 'CRC gate, own-source filter and seen-set test (return if present, add otherwise) dominate the receive record and the chain', lambda ob: c10a(tree, ob), floor=4)
    chk.run('C10.b', 'R-FLOW', 'bundle identity is (source, creation time, sequence) plus (offset, total length) for fragments only', lambda ob: c10b(tree, ob), floor=2)
    chk.run('C10.c', 'R-FLOW', 'static routing takes the first matching route in table order, records its action only, and is skipped for bundles already claimed; own admin endpoint is delivered', lambda ob: c10c(tree, ob), floor=5)
    chk.run('C10.d', 'sibling', 'every application receive step checks deliver/destination/not-fragment before touching the bundle', lambda ob: c10d(tree, ob), floor=3)
    chk.run('C10.f', 'R-ORDER', 'a bundle leaves the forwarding queue before it is processed, whatever the outcome (a failed forward is not processed again)', lambda ob: c10f(tree, ob), floor=1)
    chk.run('C10.g', 'R-PAIR', 'a fragment never continues down the receive chain as if it were the bundle: one re-injection site through recv_bundle (identity recorded there) (= C06.d)', lambda ob: _c06d(tree, ob), floor=3)
    chk.run('C10.h', 'R-ORDER', 'a damaged bundle is dropped silently before anything is recorded or reported (= C08.b)', lambda ob: __import__('sa.props.c08', fromlist=['c08b']).c08b(tree, ob), floor=6)
    chk.run('C10.i', 'R-TRUTH', 'identities and destinations are compared as they are on the wire: decoding keeps the text of every EID and every value (= C02.e)', lambda ob: __import__('sa.props.c02', fromlist=['c02e']).c02e(tree, ob), floor=20)
    chk.run('C10.j', 'R-SCHEMA', 'a well-formed administrative record addressed to this node is delivered: the status-report handler does not take the record apart by a fixed item count (RFC 9171 6.1.1: four items, six for a report about a fragment)', lambda ob: c10j(tree, ob), floor=1)
    chk.run('C10.k', 'R-FRESH', 'the seen-set, queues and per-bundle records belong to their agent / container object (created per instance, no shared default objects)', lambda ob: (__import__('sa.props.common', fromlist=['per_instance_state', 'fresh_defaults']).per_instance_state(tree, ob, 'bp/agent.py', ('Agent',)), __import__('sa.props.common', fromlist=['per_instance_state', 'fresh_defaults']).per_instance_state(tree, ob, 'bp/util.py', ('BundleContainer',)), __import__('sa.props.common', fromlist=['per_instance_state', 'fresh_defaults']).per_instance_state(tree, ob, 'bp/cla.py', ('AbstractAdaptor', 'UdpclAdaptor', 'BtpuAdaptor', 'TcpclAdaptor')), __import__('sa.props.common', fromlist=['per_instance_state', 'fresh_defaults']).fresh_defaults(tree, ob, ['bp/agent.py', 'bp/util.py', 'bp/cla.py', 'bp/config.py'])), floor=3)
    chk.run('C10.l', 'R-TRUTH', 'the node ID and the route tables the agent works with are the configured ones: the configuration loader hands every setting on as read', lambda ob: __import__('sa.props.common', fromlist=['config_verbatim']).config_verbatim(tree, ob, 'bp/config.py'), floor=2)
    chk.run('C10.m', 'sibling', 'checking a CRC leaves the block as it was, so a bundle that passed the gate is not dropped later for a CRC the check itself destroyed (= C08.c)', lambda ob: __import__('sa.props.c08', fromlist=['c08c']).c08c(tree, ob), floor=8)
    chk.run('C10.n', 'R-NOPATH', 'security steps act only on bundles delivered here: a transit or unrouted bundle is not deleted by them (= C12.b)', lambda ob: __import__('sa.props.c12', fromlist=['c12b']).c12b(tree, ob), floor=8)
    chk.run('C10.o', 'R-FLOW', 'an administrative bundle for this node is delivered whether it arrived whole or in fragments: the record is read from the payload block data (= C06.k)', lambda ob: __import__('sa.props.c06', fromlist=['c06k']).c06k(tree, ob), floor=1)
    chk.run('C10.p', 'R-WHO', 'the route tables are only appended to at run time: a configured route (pattern order, MTU) is never replaced or dropped by discovery', lambda ob: __import__('sa.props.common', fromlist=['route_tables_append_only']).route_tables_append_only(tree, ob), floor=1)
    chk.run('C10.q', 'R-FLOW', 'every reception a CL announces reaches the agent: the adaptors pop exactly the announced transfer and hand it on unconditionally (repeats are judged by bundle identity, in the agent)', lambda ob: __import__('sa.props.c11', fromlist=['adaptor_rx_fidelity']).adaptor_rx_fidelity(tree, ob), floor=2)
    chk.run('C10.r', 'R-ORDER', 'the block index the bundle identity is computed from exists before it is read (built at construction, or asked for by every reader)', lambda ob: c10r(tree, ob), floor=1)
    chk.run('C10.s', 'R-GUARD', 'the administrative routing step claims a bundle by its destination alone (= C06.p)', lambda ob: admin_route_by_destination_only(tree, ob), floor=1)
    chk.run('C10.t', 'R-TRUTH', 'destinations, sources and route patterns are compared as written: no case folding in the route configuration or in the endpoint ID field', lambda ob: c10t(tree, ob), floor=1)
    chk.run('C10.u', 'R-TRUTH', 'an application claims only the endpoint it was configured with: no endpoint is derived for a node whose configuration names none (a derived one claims bundles ahead of the route table)', lambda ob: c10u(tree, ob), floor=2)
    chk.run('C10.e', 'R-WHO', 'actions are recorded only through record_action (two sanctioned direct edits)', lambda ob: c10e(tree, ob), floor=3)


def c10u(tree, ob):
    ''' the routing steps of the applications (order below static routing) claim a bundle whose destination equals the
    application's own endpoint.  That endpoint is the configured one or None (= claims nothing); one made up from the node
    ID takes bundles for <node>/<app> away from the route the table has for them. '''
    n = 0
    for (rel, mod) in sorted(tree.modules.items()):
        if not rel.startswith('bp/app/'):
            continue
        for (r, qual, func) in tree.all_functions([rel]):
            for st in walk_local(func):
                if not isinstance(st, ast.Assign):
                    continue
                for t in st.targets:
                    if not (isinstance(t, ast.Attribute) and t.attr == 'own_eid'):
                        continue
                    n += 1
                    fv = FuncView(tree, rel, qual)
                    val = fv.value_at(st.value, st, depth=3)
                    if (isinstance(val, ast.Constant) and val.value is None) or pm("$c.get('endpoint')", val) is not None or pm("$c['endpoint']", val) is not None:
                        ob.site(rel, st, qual + ': own endpoint is the configured one (or none)')
                    else:
                        ob.violate(rel, qual, src(st)[:80], 'the endpoint the application claims is not the configured value as read (derived from the node ID, defaulted or rewritten): on a node that '
                                   'configures none the routing step of the application, which runs before static routing, claims bundles the route table forwards or delivers elsewhere', st)
    ob.require(n >= 2, 'own_eid stores in bp/app: {}'.format(n))


def c10a(tree, ob):
    fv = FuncView(tree, AGENT, 'Agent.recv_bundle')
    recs = [c for c in method_calls(fv.func, 'record_action') if c.args and const_str(c.args[0]) == 'receive']
    rec = one(recs, "record_action('receive')", ob)
    steps = [c for c in calls_in(fv.func) if pm('step.action(ctr)', c) is not None]
    step = one(steps, 'chain step invocation', ob)
    adds = [c for c in calls_in(fv.func) if pm('self._seen_bundle_ident.add($i)', c) is not None or pm('self._seen_bundle_ident.append($i)', c) is not None]
    add = one(adds, 'seen-set add', ob)
    ident = src(add.args[0])
    idef = fv.value_at(add.args[0], add)
    if pm('ctr.bundle_ident()', idef) is None:
        ob.violate(AGENT, fv.qual, src(add), 'the remembered identity is not the bundle identity', add)
    conds = [n for n in fv.cfg.nodes if n.kind == 'cond' and norm.atom(n.ast) == ('{} in self._seen_bundle_ident'.format(ident), True)]
    memb = one(conds, 'seen-set membership test', ob)
    own = ('ctr.bundle.primary.source == self._config.node_id', False)
    for site in (rec, step, add):
        facts = fv.facts(site) or frozenset()
        if own not in facts:
            ob.violate(AGENT, fv.qual, src(site)[:60], 'reachable for a bundle whose source is this node', site)
        elif not fv.cfg.must_pass(fv.cfg.entry, fv.node(site), {memb})[0]:
            ob.violate(AGENT, fv.qual, src(site)[:60], 'reachable without the seen-identity test: a repeat is processed', site)
        else:
            ob.site(AGENT, site, 'after own-source filter and seen-set test')
    if not fv.has(add, '{} in self._seen_bundle_ident'.format(ident), False):
        ob.violate(AGENT, fv.qual, src(add), 'identity is added on a path other than "not yet seen"', add)
    ok, wit = fv.dominates(add, rec)
    if not ok or not fv.dominates(add, step)[0]:
        ob.violate(AGENT, fv.qual, src(add), 'a bundle can be processed without its identity having been remembered first (a repeat of it is processed again)', add, path_text(wit or []))
    else:
        ob.site(AGENT, add, 'identity remembered before any processing')
    # the memory of seen identities is an unbounded set
    cls = tree.klass(AGENT, 'Agent')
    inits = [(f, st, v) for (f, st, k, v) in stores_to_self_attr(cls, '_seen_bundle_ident')]
    for (f, st, v) in inits:
        if f.name == '__init__' and pm('set()', v) is not None:
            ob.site(AGENT, st, 'seen identities kept in an unbounded set')
        else:
            ob.violate(AGENT, 'Agent.' + f.name, src(st), 'the memory of seen bundle identities is not an unbounded set: identities are forgotten (or replaced) and a late repeat is processed again', st)
    if add.func.attr != 'add':
        ob.violate(AGENT, fv.qual, src(add), 'identity is not added to a set', add)
    # the membership-true path returns without side effects
    c = memb
    tsucc = [s for (s, lab) in c.succ if lab is True][0]
    reach = fv.cfg.reachable([tsucc]) | {tsucc}
    for site in (rec, step):
        if fv.node(site) in reach:
            ob.violate(AGENT, fv.qual, 'if {} in self._seen_bundle_ident'.format(ident), 'an already seen bundle still reaches processing', site)


def _c06d(tree, ob):
    from .c06 import c06d
    return c06d(tree, ob)


def c10b(tree, ob):
    fv = FuncView(tree, UTIL, 'BundleContainer.bundle_ident')
    rets = [r for r in walk_local(fv.func) if isinstance(r, ast.Return)]
    r = one(rets, 'return in bundle_ident', ob)
    got = pm('tuple($l)', r.value)
    ob.require(got is not None and isinstance(got['l'], ast.Name), 'bundle_ident does not return tuple(<list>)')
    lname = got['l'].id
    defs = norm.local_assigns(fv.func, lname)
    base = [d for d in defs if isinstance(d[1], ast.List)]
    b = one(base, 'identity list literal', ob)
    pri = fv.value_at(ast.parse('pri', mode='eval').body, b[0])
    elts = [src(fv.value_at(e, b[0])) for e in b[1].elts]
    prim = ("self.bundle.getfieldval('primary')", 'self.bundle.primary')
    want = [[p + '.source' for p in prim], [p + ".create_ts.getfieldval('dtntime')" for p in prim], [p + ".create_ts.getfieldval('seqno')" for p in prim]]
    if len(elts) != 3 or any(e not in w for (e, w) in zip(elts, want)):
        ob.violate(UTIL, fv.qual, src(b[1]), 'identity does not start with exactly (source, creation time, sequence number)', b[0])
    else:
        ob.site(UTIL, b[0], 'identity = (source, dtntime, seqno)')
    ext = [d for d in defs if d[0] is not b[0]]
    e = one(ext, 'fragment extension of the identity', ob)
    st = e[0]
    vals = [src(fv.value_at(x, st)) for x in st.value.elts] if isinstance(st, ast.AugAssign) and isinstance(st.op, ast.Add) and isinstance(st.value, ast.List) else []
    okext = vals[:2] in ([p + '.fragment_offset', p + '.total_app_data_len'] for p in prim)
    # ... and by the extent of the fragment itself: two fragments at one offset may differ in length, and the shorter one
    # must not make the longer one a duplicate (the set then reassembles in some arrival orders only)
    oklen = len(vals) == 3 and vals[2].startswith('len(') and 'btsd' in vals[2] and 'BLOCK_NUM_PAYLOAD' in vals[2]
    facts = fv.facts(st) or frozenset()
    guarded = any(p and t.endswith('.bundle_flags & PrimaryBlock.Flag.IS_FRAGMENT') for (t, p) in facts)
    if not okext:
        ob.violate(UTIL, fv.qual, src(st), 'fragment identity is not extended by (fragment offset, total length)', st)
    elif not oklen:
        ob.violate(UTIL, fv.qual, src(st), 'the identity of a fragment lacks its own payload length: a longer fragment at an offset already seen is dropped as a duplicate, so a covering set of '
                   'fragments reassembles only in some arrival orders', st)
    elif not guarded:
        ob.violate(UTIL, fv.qual, src(st), 'fragment fields are part of the identity of non-fragments too', st)
    else:
        ob.site(UTIL, st, 'fragments add (offset, total length, own payload length)')


def c10c(tree, ob):
    from .common import route_table_loading
    route_table_loading(tree, ob, 'rx_route_table', 'RxRouteItem', {'eid_pattern': "re.compile(item['eid_pattern'])", 'action': "item['action']"})
    fv = FuncView(tree, AGENT, 'Agent._do_rx_step')
    loops = [n for n in walk_local(fv.func) if isinstance(n, ast.For)]
    loop = one(loops, 'route loop', ob)
    if src(loop.iter) != 'self._config.rx_route_table':
        ob.violate(AGENT, fv.qual, 'for item in ' + src(loop.iter), 'routes are not consulted in table order', loop)
    else:
        ob.site(AGENT, loop, 'routes consulted in stored order')
    breaks = [n for n in walk_local(loop) if isinstance(n, ast.Break)]
    if not breaks:
        ob.violate(AGENT, fv.qual, 'for item in self._config.rx_route_table: (no break)', 'the route search does not stop at the first match: the last matching route wins', loop)
        return
    brk = one(breaks, 'break in the route loop', ob)
    m = pm('$i.eid_pattern.match($e)', fv.value_at(ast.parse('match', mode='eval').body, brk))
    if not fv.has(brk, 'match is None', False):
        ob.violate(AGENT, fv.qual, 'break', 'the route search does not stop at the first match', brk)
    elif m is None or src(m['i']) != src(loop.target) or src(fv.value_at(m['e'], brk)) != 'ctr.bundle.primary.destination':
        ob.violate(AGENT, fv.qual, 'match = ...', 'routes are not matched against the bundle destination', brk)
    else:
        ob.site(AGENT, brk, 'stop at the first route whose pattern matches the destination')
    founds = [st for (st, v) in norm.local_assigns(fv.func, 'found') if enclosing(st, (ast.For,)) is loop]
    f = one(founds, 'found = item', ob)
    if src(f.value) != src(loop.target) or not fv.has(f, 'match is None', False) or fv.node(brk) not in fv.cfg.reachable([fv.node(f)]):
        ob.violate(AGENT, fv.qual, src(f), 'the remembered route is not the matching one', f)
    recs = method_calls(fv.func, 'record_action')
    rec = one(recs, 'record_action in _do_rx_step', ob)
    if src(rec.args[0]) != 'found.action' or not fv.has(rec, 'found', True):
        ob.violate(AGENT, fv.qual, src(rec), 'the recorded action is not that of the found route (or is recorded without a route)', rec)
    else:
        ob.site(AGENT, rec, 'records found.action only when a route was found')
    # skipped when already claimed
    if not fv.has(loop.iter, "'deliver' in ctr.actions", False):
        ob.violate(AGENT, fv.qual, "if 'deliver' in ctr.actions: return", 'static routing also runs for bundles an endpoint already claimed (they can be delivered and also forwarded/deleted)', loop)
    else:
        ob.site(AGENT, loop, "skipped when 'deliver' is already recorded")
    # admin route step
    steps = chain_steps(tree)
    adm = [s for s in steps if s['cls'] == 'Administrative' and s['chain'] == 'rx' and s['action'] == '_rx_route']
    a = one(adm, 'administrative routing step', ob)
    stat = [s for s in steps if s['cls'] == 'Agent' and s['chain'] == 'rx']
    s0 = one(stat, 'static routing step', ob)
    if not a['order'] < s0['order']:
        ob.violate('bp/app/admin.py', a['func'], 'order={}'.format(a['order']), 'administrative routing does not run before static routing', a['node'])
    fa = FuncView(tree, 'bp/app/admin.py', 'Administrative._rx_route')
    recs = method_calls(fa.func, 'record_action')
    r = one(recs, 'record_action in admin routing', ob)
    eid = fa.value_at(ast.parse('eid', mode='eval').body, r)
    if const_str(r.args[0]) != 'deliver' or not (fa.has(r, 'eid == self._config.node_id', True) or fa.has(r, 'ctr.bundle.primary.destination == self._config.node_id', True)):
        ob.violate('bp/app/admin.py', fa.qual, src(r), 'bundles for the node administrative endpoint are not (only) delivered', r)
    else:
        ob.site('bp/app/admin.py', r, 'own admin endpoint -> deliver')


def c10d(tree, ob):
    steps = [s for s in chain_steps(tree) if s['chain'] == 'rx' and s['order'] >= 30]
    ob.require(len(steps) >= 3, 'application receive steps')
    for s in steps:
        fm = tree.find_method(s['rel'], s['cls'], s['action'])
        ob.require(fm is not None, 'step action {} not found'.format(s['action']))
        qual = fm[1].name + '.' + fm[2].name
        fv = FuncView(tree, fm[0], qual)
        par = fm[2].args.args[1].arg
        bad = None
        for node in walk_local(fm[2]):
            if isinstance(node, ast.Name) and node.id == par and isinstance(node.ctx, ast.Load):
                call = enclosing(node, (ast.Call,))
                if call is not None and isinstance(call.func, ast.Attribute) and call.func.attr == '_recv_for':
                    continue
                facts = fv.facts(node) or frozenset()
                if any(p and t.startswith('self._recv_for({},'.format(par)) for (t, p) in facts):
                    continue
                bad = node
                break
        if bad is None:
            ob.site(fm[0], fm[2], '{} consults _recv_for before touching the bundle'.format(qual))
        else:
            st = bad
            while not isinstance(st, ast.stmt):
                st = st._parent
            ob.violate(fm[0], qual, src(st)[:70], 'application step uses the bundle without checking that it is delivered, addressed to this endpoint and not a fragment '
                       '(it consumes bundles routed "forward", with no route, or addressed elsewhere)', bad)
    # the guard itself
    fb = FuncView(tree, BASE, 'AbstractApplication._recv_for')
    rets = [r for r in walk_local(fb.func) if isinstance(r, ast.Return) and isinstance(r.value, ast.Constant) and r.value.value is True]
    r = one(rets, 'return True in _recv_for', ob)
    facts = fb.facts(r) or frozenset()
    need = [("'deliver' in ctr.actions", True), ('ctr.bundle.primary.destination == dest_eid', True), ('ctr.bundle.primary.bundle_flags & PrimaryBlock.Flag.IS_FRAGMENT', False)]
    miss = [f for f in need if f not in facts]
    if miss:
        ob.violate(BASE, fb.qual, 'return True', '_recv_for accepts without checking {}'.format([t for (t, p) in miss]), r)
    else:
        ob.site(BASE, r, '_recv_for = delivered and addressed here and not a fragment')


def c10f(tree, ob):
    fv = FuncView(tree, AGENT, 'Agent._do_fwd')
    pops = [c for c in calls_in(fv.func) if pm('self._fwd_queue.pop(0)', c) is not None or pm('self._fwd_queue.popleft()', c) is not None]
    if len(pops) != 1:
        ob.violate(AGENT, fv.qual, 'self._fwd_queue.pop(0)', 'the forwarding queue is not consumed exactly once per call', fv.func)
        return
    p = pops[0]
    work = method_calls(fv.func, 'send_bundle', 'self') + method_calls(fv.func, '_finish_bundle', 'self') + method_calls(fv.func, 'record_action')
    late = [w for w in work if not fv.dominates(p, w)[0] or fv.node(p) in fv.cfg.reachable([fv.node(w)])]
    if late:
        ob.violate(AGENT, fv.qual, '{} before {}'.format(src(late[0])[:40], src(p)), 'the bundle is processed while still at the head of the forwarding queue: when the send fails it stays there '
                   'and is forwarded / reported again with the next bundle', p)
    else:
        ob.site(AGENT, p, 'queue head removed before the bundle is processed')
    val = fv.value_at(ast.parse('ctr', mode='eval').body, work[0], depth=1) if work else None
    if val is None or (pm('self._fwd_queue.pop(0)', val) is None and pm('self._fwd_queue.popleft()', val) is None):
        ob.violate(AGENT, fv.qual, 'ctr = ' + (src(val) if val is not None else '?'), 'the bundle processed is not the one removed from the queue', p)


def _followed_by_delete(call):
    ''' the statement list that holds this call records 'delete' behind it '''
    from ..core import parent, enclosing_stmt
    st = enclosing_stmt(call)
    par = parent(st)
    for fld in ('body', 'orelse', 'finalbody'):
        blk = getattr(par, fld, None)
        if isinstance(blk, list) and st in blk:
            after = blk[blk.index(st) + 1:]
            return any(isinstance(c, ast.Call) and isinstance(c.func, ast.Attribute) and c.func.attr == 'record_action' and c.args and const_str(c.args[0]) == 'delete'
                       for x in after for c in ast.walk(x))
    return False


def c10e(tree, ob):
    allowed = {('bp/util.py', 'BundleContainer.record_action'), ('bp/util.py', 'BundleContainer.__init__'),
               ('bp/app/bpsec.py', 'Bpsec._verify_bcb', 'del'), ('bp/app/bpsec.py', 'Bpsec._verify_bib', 'del'),
               ('bp/app/bpsec.py', 'Bpsec._verify_bcb', 'pop'), ('bp/app/bpsec.py', 'Bpsec._verify_bib', 'pop'),
               ('bp/app/fragment.py', 'Fragment._reassemble', 'clear')}
    for rel in sorted(r for r in tree.modules if r.startswith('bp/')):
        for (r, qual, func) in tree.all_functions([rel]):
            for node in walk_local(func):
                kind = None
                if isinstance(node, ast.Assign) and any(isinstance(t, ast.Subscript) and (dotted(t.value) or '').endswith('.actions') for t in node.targets):
                    kind = 'store'
                elif isinstance(node, ast.Assign) and any((dotted(t) or '').endswith('.actions') for t in node.targets):
                    kind = 'init'
                elif isinstance(node, ast.Delete) and any(isinstance(t, ast.Subscript) and (dotted(t.value) or '').endswith('.actions') for t in node.targets):
                    kind = 'del'
                elif isinstance(node, ast.Call) and isinstance(node.func, ast.Attribute) and (dotted(node.func.value) or '').endswith('.actions') \
                        and node.func.attr in ('clear', 'pop', 'update', 'setdefault', 'popitem'):
                    kind = node.func.attr
                if kind is None:
                    continue
                if (rel, qual) in allowed or (rel, qual, kind) in allowed:
                    ob.site(rel, node, 'sanctioned edit of actions in ' + qual)
                elif kind == 'pop' and len(node.args) == 2 and const_str(node.args[0]) in ('deliver', 'forward') and \
                        enclosing(node, (ast.ExceptHandler,)) is not None and \
                        any(c.args and const_str(c.args[0]) == 'delete' for c in method_calls(enclosing(node, (ast.ExceptHandler,)), 'record_action')):
                    # a routing decision that was not carried out is withdrawn where the failure is recorded
                    ob.site(rel, node, 'decision withdrawn in the failure arm that records delete ({})'.format(qual))
                elif kind == 'pop' and len(node.args) == 2 and const_str(node.args[0]) in ('deliver', 'forward') and _followed_by_delete(node):
                    # the same withdrawal outside an exception arm: a refusal that records delete right behind it
                    ob.site(rel, node, 'decision withdrawn where delete is recorded ({})'.format(qual))
                elif kind == 'init' and isinstance(node.value, ast.Call) and dotted(node.value.func) == 'dict' and len(node.value.args) == 1 and \
                        (dotted(node.value.args[0]) or '').endswith('.actions'):
                    # a container derived from another one (a fragment) inherits a copy of its record
                    ob.site(rel, node, 'derived container inherits a copy of the record ({})'.format(qual))
                else:
                    ob.violate(rel, qual, src(node)[:80], 'the per-bundle action record is edited outside record_action', node)



def c10j(tree, ob):
    ADMIN = 'bp/app/admin.py'
    fv = FuncView(tree, ADMIN, 'Administrative._recv_status')
    params = [a.arg for a in fv.func.args.args]
    ob.require(len(params) >= 3, '_recv_status(self, ctr, msg)')
    rec = params[2]
    bad = []
    for st in walk_local(fv.func):
        if isinstance(st, ast.Assign) and any(isinstance(t, (ast.Tuple, ast.List)) and not any(isinstance(e, ast.Starred) for e in t.elts) for t in st.targets):
            val = fv.value_at(st.value, st, depth=2, keep=(rec,))
            if src(val) == rec:
                bad.append(st)
    if bad:
        t = [t for t in bad[0].targets if isinstance(t, (ast.Tuple, ast.List))][0]
        ob.violate(ADMIN, fv.qual, src(bad[0])[:70], 'the status report is unpacked into exactly {} items: a report about a fragment has six, the handler raises, and the administrative '
                   'bundle addressed to this node is deleted instead of delivered'.format(len(t.elts)), bad[0])
    else:
        ob.site(ADMIN, fv.func, '_recv_status does not destructure the record by a fixed count')


def c10r(tree, ob):
    ''' the identity of a bundle (and with it "seen before?") is computed from the block index of its container.  The index is
    built when the container is made; where it is built lazily instead, every method that reads it has to ask for it first --
    one that does not computes the identity of a fragment without its own length, and a second fragment at the same offset
    looks like a repeat and is dropped. '''
    cls = tree.klass(UTIL, 'BundleContainer')
    meths = {m.name: m for m in cls.body if isinstance(m, ast.FunctionDef)}
    ob.require('__init__' in meths and 'reload' in meths, 'BundleContainer.__init__ / reload')
    fi = FuncView(tree, UTIL, 'BundleContainer.__init__')
    rl = [c for c in method_calls(fi.func, 'reload', 'self')]
    eager = bool(rl) and fi.cfg.must_pass(fi.cfg.entry, fi.cfg.exit, {fi.node(c) for c in rl}, include_exc=False)[0]
    if eager:
        ob.site(UTIL, rl[0], 'the block index is built when the container is made')
        return
    ensurers = {name for (name, m) in meths.items() if method_calls(m, 'reload', 'self')}
    n = 0
    for (name, m) in meths.items():
        if name in ('__init__', 'reload') or name in ensurers:
            continue
        reads = [x for x in walk_local(m) if isinstance(x, ast.Attribute) and isinstance(x.ctx, ast.Load) and self_attr(x) in ('_block_num', '_block_type')]
        if not reads:
            continue
        fv = FuncView(tree, UTIL, 'BundleContainer.' + name)
        ens = [c for c in calls_in(m) if isinstance(c.func, ast.Attribute) and src(c.func.value) == 'self' and c.func.attr in ensurers]
        for r in reads:
            if any(fv.dominates(c, r)[0] for c in ens):
                n += 1
                continue
            ob.violate(UTIL, 'BundleContainer.' + name, 'self.{} read without the index having been built'.format(self_attr(r)), 'the container builds its block index lazily and this method reads it without asking for it: '
                       'on a fresh container the index is empty (the identity of a fragment lacks its own length, a block is "not there")', r, sure=True)
            break
    if not [f for f in ob.findings]:
        ob.site(UTIL, fi.func, 'lazy index: every reader asks for it first ({} reads)'.format(n))


def admin_route_by_destination_only(tree, ob):
    ''' whether a bundle is for the administrative element of this node is decided by its destination alone.  Fragments of
    such a bundle are "for the node" as well: they must be marked for delivery to reach reassembly (which runs behind the
    routing steps and only looks at bundles to be delivered here). '''
    ADMIN = 'bp/app/admin.py'
    fv = FuncView(tree, ADMIN, 'Administrative._rx_route')
    recs = [c for c in method_calls(fv.func, 'record_action', 'ctr') if c.args and const_str(c.args[0]) == 'deliver']
    rec = one(recs, "record_action('deliver') in Administrative._rx_route", ob)
    facts = [(t, p) for (t, p) in (fv.facts(rec) or ()) if not t.startswith('isinstance(')]
    dest = [(t, p) for (t, p) in facts if 'destination' in t or t.startswith('eid ==') or ' == self._config.node_id' in t]
    extra = [(t, p) for (t, p) in facts if (t, p) not in dest]
    if dest and not extra:
        ob.site(ADMIN, rec, 'a bundle for the node ID is marked for delivery, whole or fragment')
    elif extra:
        ob.violate(ADMIN, fv.qual, "record_action('deliver') under {}{}".format('' if extra[0][1] else 'not ', extra[0][0])[:100], 'delivery to the administrative element also depends on something other than the destination '
                   '(here a test of the bundle itself): fragments addressed to the node are not marked for delivery, never reach reassembly and the bundle is never delivered', rec, sure=True)
    else:
        ob.violate(ADMIN, fv.qual, "record_action('deliver')", 'delivery to the administrative element is not conditional on the destination being the node ID', rec)


def c10t(tree, ob):
    ''' "routes by first match" of the destination against the configured patterns, as configured: the patterns are compiled
    without flags, and the text they are matched against is the endpoint ID as decoded.  Case-folding on either side
    (IGNORECASE patterns; a "shown form" of the EID field in lower case, which scapy hands out on attribute access) lets
    dtn://Relay/ take the route of dtn://relay/, look-alike sources count as repeats and a foreign node as this one. '''
    n = 0
    for rel in ('bp/config.py', 'bp/agent.py', 'bp/app/admin.py'):
        for node in ast.walk(tree.module(rel).tree):
            if isinstance(node, ast.Attribute) and node.attr in ('IGNORECASE', 'I') and src(node.value) == 're':
                ob.violate(rel, (enclosing(node, (ast.FunctionDef,)) or ast.FunctionDef(name='<module>')).name, src(node), 'route patterns are compiled case-insensitively: a destination that differs in letter case from the one '
                           'configured takes its route (and can shadow the true first match)', node, sure=True)
                n += 1
    FLD = 'bp/encoding/fields.py'
    cls = tree.klass(FLD, 'EidField')
    for m in [x for x in cls.body if isinstance(x, ast.FunctionDef)]:
        for c in calls_in(m):
            if isinstance(c.func, ast.Attribute) and c.func.attr in ('lower', 'upper', 'casefold', 'title', 'capitalize', 'swapcase'):
                # the scheme NAME is looked up in lower case by the encoder (TypeCode[scheme.lower()]): that is the table key, not the EID
                tgt = src(c.func.value)
                if m.name == 'i2m' and tgt in ('scheme', 'scheme_name'):
                    continue
                ob.violate(FLD, 'EidField.' + m.name, src(c)[:60], 'the endpoint ID field changes letter case (here in {}): what routing, the own-source test and the bundle identity see is no longer the '
                           'EID that arrived'.format(m.name), c, sure=True)
                n += 1
    if not n:
        ob.site(FLD, cls, 'endpoint IDs and route patterns are compared as written (no case folding)')
