''' C12 — a bundle with an unverifiable security block is never delivered (structural clauses). '''
import ast
from ..core import AnalysisError, walk_local, calls_in, call_name, dotted, src, self_attr, kwarg, enclosing
from ..lib import (FuncView, pm, method_calls, one, at_least, stores_to_self_attr, const_str, path_text)
from ..cfg import handler_names
from ..callgraph import CallGraph
from ..dbus_types import Typer
from .. import norm
from .common import chain_steps, aliased_list_mutation
from .c03 import c03c, c03a
from .c16 import c16b

SEC = 'bp/app/bpsec.py'
AGENT = 'bp/agent.py'
UTIL = 'bp/util.py'


def check(chk, thorough=False):
    tree = chk.tree
    chk.run('C12.a', 'R-SCHEMA', 'receive chain order: routing < reassembly < BCB < BIB < every application step; the chain is sorted by order', lambda ob: c12a(tree, ob), floor=8)
    chk.run('C12.b', 'R-NOPATH', 'any failure entry withdraws deliver, records delete with a reason and interrupts the chain; unknown context and exceptions become failure entries', lambda ob: c12b(tree, ob), floor=10)
    chk.run('C12.c', 'R-NOPATH', 'the chain runner stops running steps after a step raised', lambda ob: c12c(tree, ob), floor=1)
    chk.run('C12.d', 'R-FLOW', 'verdicts are fail-closed (= C03.c for BIB, C16.b for BCB); the verifier checks the actual target data (= C03.a)', lambda ob: (c03c(tree, ob, 'bib'), c16b(tree, ob), c03a(tree, ob, 'apply_bib'), c12_params(tree, ob)), floor=20)
    chk.run('C12.e', 'R-ITER', 'every security block of the bundle is visited: the loops are not invalidated by removal of accepted blocks', lambda ob: c12e(tree, ob), floor=2)
    chk.run('C12.g', 'R-FLOW', 'duplicate parameter / result ids are really detected: the id collections compared with their de-duplicated size are lists', lambda ob: c12g(tree, ob), floor=2)
    chk.run('C12.i', 'R-FLOW', 'the AAD binds target data and metadata under their scope bits (= C03.b)', lambda ob: __import__('sa.props.c03', fromlist=['c03b']).c03b(tree, ob), floor=7)
    chk.run('C12.j', 'R-NOPATH', 'no security block escapes verification by not being found: every block of a received bundle is entered into the type index (whatever its number), and a block that cannot be decoded fails the bundle instead of vanishing', lambda ob: c12j(tree, ob), floor=2)
    chk.run('C12.k', 'R-FRESH', 'key stores, associations and contexts belong to their application object (created per instance, no shared default objects)', lambda ob: (__import__('sa.props.common', fromlist=['per_instance_state', 'fresh_defaults']).per_instance_state(tree, ob, 'bp/app/bpsec.py', ('Bpsec', 'CoseContext')), __import__('sa.props.common', fromlist=['per_instance_state', 'fresh_defaults']).fresh_defaults(tree, ob, ['bp/app/bpsec.py', 'bp/app/base.py', 'bp/crypto.py'])), floor=3)
    chk.run('C12.l', 'R-TRUTH', 'what is verified is what arrived: decoding keeps every bit of flags and values (= C02.e)', lambda ob: __import__('sa.props.c02', fromlist=['c02e']).c02e(tree, ob), floor=20)
    chk.run('C12.h', 'R-ORDER', 'a verification key comes only from the symmetric store, or from a validated chain whose node id MATCHED the security source (= C03.d)', lambda ob: _c03d(tree, ob), floor=3)
    chk.run('C12.m', 'R-GUARD', 'the block data a security result is checked over is the data as received: it is not regenerated from a parsed payload while received data is present (= C02.d)', lambda ob: __import__('sa.props.c02', fromlist=['c02d']).c02d(tree, ob), floor=3)
    chk.run('C12.n', 'R-TRUTH', 'the certificate of a signer is accepted for the security source only by exact match of the node ID with an identifier of the certificate (match_id: plain membership, three outcomes) (= C15.c clause)', lambda ob: __import__('sa.props.c15', fromlist=['match_id_exact']).match_id_exact(tree, ob), floor=1)
    chk.run('C12.o', 'R-GUARD', 'the security blocks of a reassembled bundle are those of the fragment with offset 0 (the only one that carries them), whatever the order of arrival (= C06.e)', lambda ob: __import__('sa.props.c06', fromlist=['c06e']).c06e(tree, ob), floor=5)
    chk.run('C12.p', 'R-FLOW', 'accepting (removing) one security block leaves every other block in the type index the verify steps search (= C11.d)', lambda ob: __import__('sa.props.c11', fromlist=['c11d']).c11d(tree, ob), floor=5)
    chk.run('C12.q', 'R-WHO', 'a result that names no key does not verify: the key identification of one result never becomes a default for the next (the shared additional headers are read-only) (= C03.p)', lambda ob: __import__('sa.props.c03', fromlist=['addl_headers_read_only']).addl_headers_read_only(tree, ob), floor=4)
    chk.run('C12.r', 'R-SCHEMA', 'what a security result is verified over is what arrived: fields, endpoint IDs (the security source) and blocks decode only from the item in the form the encoder gives back, so no other spelling re-encodes to the signed octets (= C08.e)', lambda ob: __import__('sa.props.c08', fromlist=['c08e']).c08e(tree, ob), floor=30)
    chk.run('C12.f', 'R-TYPE', 'the recorded deletion reason is a reason code (integer) on every path', lambda ob: c12f(tree, ob), floor=2)


def c12a(tree, ob):
    steps = [s for s in chain_steps(tree) if s['chain'] == 'rx']
    by = {}
    for s in steps:
        by.setdefault((s['cls'], s['action']), []).append(s)
    routing = [s for s in steps if s['action'] in ('_do_rx_step', '_rx_route')]
    reasm = [s for s in steps if s['action'] == '_reassemble']
    bcb = [s for s in steps if s['action'] == '_verify_bcb']
    bib = [s for s in steps if s['action'] == '_verify_bib']
    apps = [s for s in steps if s['action'] == '_recv_bundle']
    other = [s for s in steps if s not in routing + reasm + bcb + bib + apps]
    if other:
        raise AnalysisError('C12.a: unclassified receive step(s): {}'.format([(s['cls'], s['action']) for s in other]))
    ob.require(routing and len(reasm) == 1 and len(bcb) == 1 and len(bib) == 1 and len(apps) >= 3, 'receive chain steps')
    chain = [('routing', routing), ('reassembly', reasm), ('BCB', bcb), ('BIB', bib), ('application', apps)]
    for ((na, a), (nb, b)) in zip(chain, chain[1:]):
        hi = max(s['order'] for s in a)
        lo = min(s['order'] for s in b)
        if hi < lo:
            ob.site(a[0]['rel'], a[0]['node'], '{} (<= {}) before {} (>= {})'.format(na, hi, nb, lo))
        else:
            culprit = max(a, key=lambda s: s['order']) if na != 'routing' else min(b, key=lambda s: s['order'])
            ob.violate(culprit['rel'], culprit['func'], '{} order {} vs {} order {}'.format(na, hi, nb, lo),
                       '{} step does not run strictly before the {} step: {}'.format(na, nb,
                       'an application can receive a bundle whose security blocks were not verified' if nb == 'application' or na in ('BCB', 'BIB') else 'steps run out of order'), culprit['node'])
    for s in apps:
        ob.site(s['rel'], s['node'], 'application step {} order {}'.format(s['cls'], s['order']))
    fa = FuncView(tree, AGENT, 'Agent.__init__')
    sorts = [c for c in calls_in(fa.func) if pm('self._rx_chain.sort()', c) is not None]
    loops = [n for n in walk_local(fa.func) if isinstance(n, ast.For) and any(isinstance(c.func, ast.Attribute) and c.func.attr == 'add_chains' for c in calls_in(n))]
    if not sorts or not loops or fa.node(sorts[0]) not in fa.cfg.reachable([fa.node(loops[0].iter)]) or enclosing(sorts[0], (ast.For,)) is not None:
        ob.violate(AGENT, fa.qual, 'self._rx_chain.sort()', 'the receive chain is not sorted after all applications added their steps', fa.func)
    else:
        ob.site(AGENT, sorts[0], 'chain sorted after all add_chains')
    lt = tree.find_method(UTIL, 'ChainStep', '__lt__')
    if not lt or pm('self.order < other.order', [r for r in walk_local(lt[2]) if isinstance(r, ast.Return)][0].value) is None:
        ob.violate(UTIL, 'ChainStep.__lt__', 'self.order < other.order', 'chain steps are not ordered by their order value', lt[2] if lt else None)
    else:
        ob.site(UTIL, lt[2], 'ChainStep ordered by order')
    # the runner iterates the sorted chain in order
    fr = FuncView(tree, AGENT, 'Agent.recv_bundle')
    lps = [n for n in walk_local(fr.func) if isinstance(n, ast.For) and 'self._rx_chain' in src(n.iter)]
    if not lps or src(lps[0].iter) != 'self._rx_chain':
        ob.violate(AGENT, fr.qual, 'for step in ' + (src(lps[0].iter) if lps else '?'), 'receive steps are not run in chain order', fr.func)


def _type_code(tree, clsname):
    for rel in ('bp/encoding/blocks.py', 'bp/encoding/bpsec.py'):
        for node in tree.module(rel).tree.body:
            if isinstance(node, ast.ClassDef) and node.name == clsname:
                for d in node.decorator_list:
                    got = pm('CanonicalBlock.bind_type($n)', d)
                    if got is not None and isinstance(got['n'], ast.Constant):
                        return got['n'].value
    raise AnalysisError('type code of {} not found'.format(clsname))


def _c03d(tree, ob):
    from .c03 import c03d
    return c03d(tree, ob)


def c12_params(tree, ob):
    ''' The parameter field of a security block is absent (None) when the context flags say so - legal, the COSE context
    then uses its default scope.  Iterating it unguarded raises TypeError, which the verify step turns into a failure. '''
    n = 0
    for qual in ('CoseSecOpCtx.check_secblk', 'CoseSecOpCtx.extract_secblk'):
        fv = FuncView(tree, SEC, qual)
        iters = [x.iter for x in ast.walk(fv.func) if isinstance(x, (ast.For, ast.comprehension))]
        for it in iters:
            if src(it).endswith('.payload.parameters'):
                ob.violate(SEC, qual, 'for ... in ' + src(it), 'the optional parameter field is iterated without a guard: a correctly signed bundle whose security block declares no parameters '
                           'fails with TypeError and is deleted', it)
                n += 1
            elif '.payload.parameters' in src(it):
                ob.site(SEC, it, qual + ': absent parameter field tolerated')
                n += 1
    ob.require(n >= 2, 'parameter iterations not found')


def c12b(tree, ob):
    for (meth, call, cls) in (('_verify_bcb', 'verify_bcb', 'BlockConfidentialityBlock'), ('_verify_bib', 'verify_bib', 'BlockIntegrityBlock')):
        fv = FuncView(tree, SEC, 'Bpsec.' + meth)
        q = fv.qual
        conds = [n for n in fv.cfg.nodes if n.kind == 'cond' and norm.atom(n.ast) == ('failure', True)]
        c = one(conds, 'if failure in ' + meth, ob)
        tsucc = [s for (s, lab) in c.succ if lab is True][0]
        fsucc = [s for (s, lab) in c.succ if lab is False][0]
        # failure branch: deliver withdrawn, delete recorded, truthy return
        dels = [n for n in walk_local(fv.func) if isinstance(n, ast.Delete) and src(n.targets[0]) == "ctr.actions['deliver']"]
        # equivalent idiom: ctr.actions.pop('deliver', None)
        dels += [x._parent for x in calls_in(fv.func) if pm("ctr.actions.pop('deliver', None)", x) is not None and isinstance(x._parent, ast.Expr)]
        wrong = [x for x in calls_in(fv.func) if isinstance(x.func, ast.Attribute) and src(x.func.value) == 'ctr.actions' and x.func.attr == 'pop' and x.args and const_str(x.args[0]) != 'deliver']
        for x in wrong:
            ob.violate(SEC, q, src(x), 'the action withdrawn on a security failure is {!r}, not \'deliver\': the failed bundle stays marked delivered (and is reported so)'.format(const_str(x.args[0])), x)
        recs = [x for x in method_calls(fv.func, 'record_action', 'ctr') if x.args and const_str(x.args[0]) == 'delete']
        rets = [r for r in walk_local(fv.func) if isinstance(r, ast.Return) and fv.has(r, 'failure', True)]
        okd = dels and fv.cfg.must_pass(tsucc, fv.cfg.exit, {fv.node(d) for d in dels} | {n for n in fv.cfg.nodes if n.kind == 'cond' and src(n.ast) == "'deliver' in ctr.actions"}, include_exc=False)[0]
        if not okd and not (dels and tsucc is fv.node(dels[0])):
            ob.violate(SEC, q, "del ctr.actions['deliver']", 'a bundle with a failed security block stays marked for delivery', c.ast)
        else:
            ob.site(SEC, dels[0], meth + ': failure withdraws deliver')
        okr = recs and (fv.cfg.must_pass(tsucc, fv.cfg.exit, {fv.node(r) for r in recs}, include_exc=False)[0])
        if not okr or len(recs[0].args) < 2:
            ob.violate(SEC, q, "ctr.record_action('delete', reason)", 'a bundle with a failed security block is not marked deleted with a reason', c.ast)
        else:
            ob.site(SEC, recs[0], meth + ': failure records delete with a reason')
        if not rets or any(not (isinstance(r.value, ast.Constant) and r.value.value is True) for r in rets) or \
                not fv.cfg.must_pass(tsucc, fv.cfg.exit, {fv.node(r) for r in rets}, include_exc=False)[0]:
            ob.violate(SEC, q, 'return True', 'a security failure does not interrupt the receive chain', c.ast)
        else:
            ob.site(SEC, rets[0], meth + ': failure interrupts the chain')
        # falsy return only with failure empty
        for r in [r for r in walk_local(fv.func) if isinstance(r, ast.Return) and (r.value is None or (isinstance(r.value, ast.Constant) and not r.value.value))]:
            facts = fv.facts(r) or frozenset()
            if ('failure', False) in facts or ("'deliver' in ctr.actions", False) in facts:
                continue
            ob.violate(SEC, q, src(r), 'the chain continues on a path where failures may have been collected', r)
        # collection
        apps = [x for x in calls_in(fv.func) if pm('failure.append(result)', x) is not None]
        a = one(apps, 'failure.append in ' + meth, ob)
        if not fv.has(a, 'result is None', False):
            ob.violate(SEC, q, src(a), 'results are collected without distinguishing success (None)', a)
        loops = [n for n in walk_local(fv.func) if isinstance(n, ast.For)]
        lp = one(loops, 'security block loop in ' + meth, ob)
        body0 = fv.node(lp.body[0])
        # (an undecodable block is collected as a failure directly, with its own append)
        direct = {fv.node(x) for x in calls_in(lp) if pm('failure.append($r)', x) is not None and x is not a and 'FAILED_SEC' in src(x)}
        okc = fv.cfg.must_pass(body0, fv.node(lp.iter), {fv.node(a), *direct, *[n for n in fv.cfg.nodes if n.kind == 'cond' and norm.atom(n.ast)[0] == 'result is None']}, include_exc=False)[0]
        if not okc:
            ob.violate(SEC, q, src(a), 'an iteration can skip collecting its result', a)
        else:
            ob.site(SEC, a, meth + ': every non-None result is collected')
        itv = fv.value_at(lp.iter, lp)
        code = _type_code(tree, cls)
        by_cls = any(pm(pat.format(cls), itv) is not None for pat in ('ctr.block_type({})', 'list(ctr.block_type({}))', 'tuple(ctr.block_type({}))'))
        by_code = any(pm(pat.format(code), itv) is not None for pat in ('ctr.block_type({})', 'list(ctr.block_type({}))', 'tuple(ctr.block_type({}))'))
        if by_cls:
            ob.violate(SEC, q, 'for ... in ' + src(itv), 'the {0} blocks are looked up by payload class: a security block whose data does not decode is indexed under its type code only, is never '
                       'examined, and the bundle is delivered'.format(cls), lp)
        elif by_code:
            # then a block of that type whose payload is not the security block class is a failure
            und = [x for x in direct if any(t == 'isinstance({}.payload, {})'.format(src(lp.target), cls) and p is False for (t, p) in (fv.cfg.facts(fv._kill_fn(), fv._gen_fn())[0].get(x) or ()))] if False else \
                [x for x in calls_in(lp) if pm('failure.append($r)', x) is not None and fv.has(x, 'isinstance({}.payload, {})'.format(src(lp.target), cls), False)]
            if und:
                ob.site(SEC, und[0], meth + ': a block of type {} that does not decode is a security failure'.format(code))
            else:
                ob.violate(SEC, q, 'undecodable {}'.format(cls), 'a block of type {} whose data does not decode as {} is not treated as a failure'.format(code, cls), lp)
        elif True:
            ob.violate(SEC, q, 'for ... in ' + src(itv), 'the loop does not visit the {} blocks of the bundle'.format(cls), lp)
        # unknown context
        unk = [st for (st, v) in norm.local_assigns(fv.func, 'result') if fv.has(st, 'ctx is None', True)]
        if not unk or any('UNKNOWN_SEC' not in src(u.value) for u in unk):
            bad = next((u for u in unk if 'UNKNOWN_SEC' not in src(u.value)), lp)
            ob.violate(SEC, q, 'ctx is None -> ' + (src(bad.value) if bad is not lp else 'nothing'), 'a block with an unknown security context is not (always) treated as a failure: '
                       'such a block is ignored and the bundle is delivered unverified', bad)
        else:
            ob.site(SEC, unk[0], meth + ': unknown context -> UNKNOWN_SEC')
        ctxd = fv.value_at(ast.parse('ctx', mode='eval').body, a, depth=1)
        if pm('self._contexts.get({}.payload.context_id)'.format(src(lp.target)), ctxd) is None:
            ob.violate(SEC, q, 'ctx = ' + src(ctxd), 'the context is not looked up by the block context id', lp)
        # exception conversion
        calls = [x for x in calls_in(fv.func) if pm('ctx.{}(ctr, {})'.format(call, src(lp.target)), x) is not None]
        v = one(calls, 'ctx.{} call'.format(call), ob)
        trys = [t for t in walk_local(fv.func) if isinstance(t, ast.Try) and any(v in list(ast.walk(s)) for s in t.body)]
        okx = False
        for t in trys:
            for h in t.handlers:
                if handler_names(h) in (['Exception'], [None]):
                    hs = [n for n in walk_local(h) if isinstance(n, ast.Assign) and src(n.targets[0]) == 'result']
                    if hs and not (isinstance(hs[-1].value, ast.Constant) and hs[-1].value.value is None) and not any(isinstance(n, ast.Raise) for n in walk_local(h)):
                        okx = True
        if not okx:
            ob.violate(SEC, q, 'try: result = ctx.{}(...) except Exception: result = <failure>'.format(call), 'an exception while verifying is not converted into a failure entry', v)
        else:
            ob.site(SEC, v, meth + ': exceptions become failure entries')
        # only delivered bundles are examined, and the guard returns falsy
        if not fv.has(lp.iter, "'deliver' in ctr.actions", True):
            ob.violate(SEC, q, "if 'deliver' not in ctr.actions: return", 'guard missing', fv.func)


def c12c(tree, ob):
    fv = FuncView(tree, AGENT, 'Agent.recv_bundle')
    lps = [n for n in walk_local(fv.func) if isinstance(n, ast.For) and src(n.iter) == 'self._rx_chain']
    lp = one(lps, 'receive chain loop', ob)
    hs = [h for h in walk_local(lp) if isinstance(h, ast.ExceptHandler)]
    h = one(hs, 'step exception handler', ob)
    hn = fv.cfg.node_of(h)
    act = one([c for c in calls_in(lp) if pm('step.action(ctr)', c) is not None], 'step invocation', ob)
    ob.site(AGENT, h, 'handler of a failing receive step')
    if fv.node(act) in fv.cfg.reachable([hn]):
        ob.violate(AGENT, fv.qual, 'except Exception: ... (no break)', 'after a receive step raised, later steps (including application delivery) still run', h)
    if handler_names(h) not in (['Exception'], [None]):
        ob.violate(AGENT, fv.qual, 'except ' + str(handler_names(h)), 'not every step exception aborts the chain', h)
    if not _caught_in(act, lp):
        ob.violate(AGENT, fv.qual, src(act), 'step is invoked outside the try', act)
    # a truthy step result interrupts too
    brks = [n for n in walk_local(lp) if isinstance(n, ast.Break) and fv.has(n, 'step.action(ctr)', True)]
    if not brks:
        ob.violate(AGENT, fv.qual, 'if step.action(ctr): break', 'a step that asks to interrupt the chain does not stop it', lp)


def _caught_in(node, upto):
    prev = node
    cur = node._parent
    while cur is not None and cur is not upto:
        if isinstance(cur, ast.Try) and prev in cur.body:
            return True
        prev = cur
        cur = cur._parent
    return False


def c12e(tree, ob):
    cg = CallGraph(tree, [SEC, UTIL])
    for meth in ('_verify_bcb', '_verify_bib'):
        fv = FuncView(tree, SEC, 'Bpsec.' + meth)
        loops = [n for n in walk_local(fv.func) if isinstance(n, ast.For)]
        if not loops:
            # the loop may live in a helper of the same class that both steps share
            for c in calls_in(fv.func):
                if isinstance(c.func, ast.Attribute) and dotted(c.func.value) == 'self' and tree.has_func(SEC, 'Bpsec.' + c.func.attr):
                    hv = FuncView(tree, SEC, 'Bpsec.' + c.func.attr)
                    hl = [n for n in walk_local(hv.func) if isinstance(n, ast.For) and 'block_type' in src(hv.value_at(n.iter, n, depth=2))]
                    if hl:
                        (fv, loops) = (hv, hl)
                        break
        lp = one(loops, 'security block loop', ob)
        wit = aliased_list_mutation(tree, cg, fv, lp, None)
        if not wit:
            it0 = fv.value_at(lp.iter, lp, depth=2)
            if pm('ctr.block_type($t)', it0) is not None:
                # the removal of accepted blocks is a fact of verify_bib / verify_bcb (ctr.remove_block under
                # accept_after_verify): a loop over the live index list is unsafe however the verifier is reached
                wit = 'for {} in {}: the list is the container index itself'.format(src(lp.target), src(it0))
        if not wit and fv.qual != 'Bpsec.' + meth:
            # inside a shared helper the verifier is reached through a local name; the removal of accepted blocks is a fact
            # of verify_bib / verify_bcb (ctr.remove_block under accept_after_verify), so an iteration over the live index
            # list -- block_type() without a copy -- is unsafe whatever the name of the callee
            it = fv.value_at(lp.iter, lp, depth=2)
            if pm('ctr.block_type($t)', it) is not None:
                wit = 'for {} in {}: the list is the container index itself'.format(src(lp.target), src(it))
        if wit:
            ob.violate(SEC, fv.qual, 'for {} in {} (= ctr.block_type(...)): ctx.verify_*(ctr, {})'.format(src(lp.target), src(lp.iter), src(lp.target)),
                       'a fully accepted security block is removed from the very list being iterated (block_type() returns the container index), so the next security block is never verified and the bundle is delivered', lp, [wit], sure=True)
        else:
            ob.site(SEC, lp, meth + ': loop safe against removal of accepted blocks')


def c12g(tree, ob):
    fv = FuncView(tree, SEC, 'CoseSecOpCtx.check_secblk')
    n = 0
    for node in fv.cfg.nodes:
        if node.kind != 'cond':
            continue
        got = pm('len(set($x)) != len($x)', node.ast) or pm('len($x) != len(set($x))', node.ast)
        if got is None:
            continue
        n += 1
        ob.require(isinstance(got['x'], ast.Name), 'duplicate test on a non-local')
        rd = fv.reaching_defs(got['x'].id, node.ast)
        kinds = [type(v).__name__ for (_s, v) in rd if v is not None]
        if rd and all(isinstance(v, ast.ListComp) or (isinstance(v, ast.Call) and dotted(v.func) == 'list') for (_s, v) in rd):
            ob.site(SEC, node.ast, 'duplicate ids detected by comparing a list with its set')
        else:
            ob.violate(SEC, fv.qual, '{} built as {}'.format(got['x'].id, '/'.join(kinds) or '?'), 'the collection compared with its de-duplicated size is not a list (e.g. already a set): '
                       'the comparison is always equal and duplicate parameter / result ids go undetected', node.ast)
        rets = [r for r in walk_local(fv.func) if isinstance(r, ast.Return) and fv.has(r, norm.atom(node.ast)[0], not norm.atom(node.ast)[1]) is False]
    fails = [r for r in walk_local(fv.func) if isinstance(r, ast.Return) and isinstance(r.value, ast.Constant) and r.value.value is False]
    if n < 2 or len(fails) < 2:
        ob.violate(SEC, fv.qual, 'duplicate checks', 'parameter ids and per-target result ids are not both checked for duplicates', fv.func)


def c12f(tree, ob):
    for meth in ('_verify_bcb', '_verify_bib'):
        fv = FuncView(tree, SEC, 'Bpsec.' + meth)
        rec = one([x for x in method_calls(fv.func, 'record_action', 'ctr') if x.args and const_str(x.args[0]) == 'delete'], 'delete record', ob)
        ob.site(SEC, rec, meth + ': reason = ' + src(rec.args[1]) if len(rec.args) > 1 else '?')
        for (st, v) in norm.local_assigns(fv.func, 'result'):
            kind = _reason_kind(v)
            if kind == 'str':
                ob.violate(SEC, fv.qual, 'result = {}'.format(src(v)[:50]),
                           'a text message is stored as the failure reason: max() over mixed int/str raises after deliver was withdrawn, and a lone string becomes the status-report reason code', st)
            elif kind == '?':
                ob.undetermined.append('{}: reason value {} undetermined'.format(fv.qual, src(v)[:40]))


def _reason_kind(v):
    if isinstance(v, (ast.JoinedStr,)) or (isinstance(v, ast.Constant) and isinstance(v.value, str)):
        return 'str'
    if isinstance(v, ast.Call) and (dotted(v.func) in ('str', 'repr') or (isinstance(v.func, ast.Attribute) and v.func.attr == 'format')):
        return 'str'
    if isinstance(v, ast.BinOp) and isinstance(v.op, ast.Mod) and isinstance(v.left, ast.Constant) and isinstance(v.left.value, str):
        return 'str'
    if isinstance(v, ast.Attribute) and 'ReasonCode' in src(v):
        return 'int'
    if isinstance(v, ast.Call) and isinstance(v.func, ast.Attribute) and v.func.attr in ('verify_bib', 'verify_bcb'):
        return 'int'
    if isinstance(v, ast.Constant) and isinstance(v.value, int):
        return 'int'
    return '?'



def c12j(tree, ob):
    ''' _verify_bib / _verify_bcb find their blocks through ctr.block_type(11 / 12).  (1) BundleContainer.reload() must index
    every block under its type code: a "continue" ahead of the type index -- e.g. for a block whose number is null --
    hides that block from verification while the bundle is still delivered.  (2) the list decoder of scapy_cbor must not
    drop an item it cannot decode: a malformed BIB would disappear from the bundle before anyone looks for it. '''
    fv = FuncView(tree, UTIL, 'BundleContainer.reload')
    loops = [n for n in walk_local(fv.func) if isinstance(n, ast.For) and 'blocks' in src(n.iter)]
    lp = one(loops, 'loop over the blocks in reload()', ob)
    idx = [c for c in calls_in(lp) if pm('self._block_types($k).append($b)', c) is not None] + \
          [n for n in walk_local(lp) if isinstance(n, ast.Assign) and pm('self._block_type[$k]', n.targets[0]) is not None]
    ob.require(idx, 'type index update in reload()')
    head = fv.node(lp.iter)
    first = fv.node(lp.body[0])
    # every way round the loop body (exceptions apart) passes the type index
    ok = fv.cfg.must_pass(first, head, {fv.node(i) for i in idx}, include_exc=False)[0]
    # (an inner for over the keys: its iter node stands for the appends)
    inner = [n for n in walk_local(lp) if isinstance(n, ast.For) and n is not lp and any(i in list(ast.walk(n)) for i in idx)]
    if not ok and inner:
        ok = fv.cfg.must_pass(first, head, {fv.node(inner[0].iter)}, include_exc=False)[0]
    if ok:
        ob.site(UTIL, idx[0], 'every block is indexed under its type code')
    else:
        ob.violate(UTIL, fv.qual, 'for blk in blocks: ... continue ... self._block_types(key).append(blk)', 'a block can be skipped before it is entered into the type index: a security block that is not '
                   'indexed (e.g. one with a null block number) is never verified, and the bundle it was meant to protect is delivered', lp)
    decode_fails_loudly(tree, ob)


def decode_fails_loudly(tree, ob):
    ''' the generic CBOR decode layer does not paper over an item it cannot decode: a broad handler (Exception / bare) in a
    decode function of scapy_cbor that goes on -- skipping the item, leaving the field at its default -- makes a malformed or
    corrupted structure decode as a well-formed other one (a security block disappears, a reason code becomes 0, a
    corrupted block re-encodes as the original). '''
    from ..cfg import handler_names
    n = 0
    for rel in ('scapy_cbor/fields.py', 'scapy_cbor/packets.py'):
        for (r, qual, func) in tree.all_functions([rel]):
            if func.name not in ('getfield', 'do_dissect', 'dissect', 'm2i', 'do_dissect_payload', 'pre_dissect', 'post_dissect'):
                continue
            n += 1
            for h in [x for x in walk_local(func) if isinstance(x, ast.ExceptHandler)]:
                names = [(nm or 'BaseException').split('.')[-1] for nm in handler_names(h)]
                if not any(nm in ('Exception', 'BaseException') for nm in names):
                    continue
                rethrows = h.body and isinstance(h.body[-1], ast.Raise)
                if rethrows and not any(isinstance(x, (ast.Continue, ast.Return)) for st in h.body for x in ast.walk(st)):
                    ob.site(rel, h, qual + ': broad handler re-raises')
                else:
                    ob.violate(rel, qual, 'except {}: ... (goes on)'.format('/'.join(names)), 'a decode function of the generic CBOR layer catches every exception and carries on (item skipped or field left at its default): '
                               'an undecodable item vanishes or turns into a default value instead of failing the structure it belongs to', h, sure=True)
    ob.site('scapy_cbor/packets.py', tree.module('scapy_cbor/packets.py').tree, 'decode functions of scapy_cbor let failures propagate ({} functions)'.format(n))
