from . import GLib
