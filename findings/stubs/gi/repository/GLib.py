IO_IN=1; IO_OUT=4
_next=[1]; SOURCES={}   # id -> (kind, func, args, extra)
ERRORS=[]
def _add(kind,func,args,extra=None):
    i=_next[0]; _next[0]+=1; SOURCES[i]=(kind,func,args,extra); return i
def idle_add(func,*args): return _add('idle',func,args)
def timeout_add(ms,func,*args): return _add('timeout',func,args,ms)
def io_add_watch(sock,cond,func,*args): return _add('io',func,args,(sock,cond))
def source_remove(i): SOURCES.pop(i,None)
def _dispatch(i):
    kind,func,args,extra=SOURCES[i]
    try:
        if kind=='io': r=func(extra[0],extra[1],*args)
        else: r=func(*args)
    except Exception as e:
        import traceback
        ERRORS.append((func.__name__,type(e).__name__,str(e)))
        r=False
    if not r: SOURCES.pop(i,None)
def run_pending(max_iter=10000):
    """run idle sources and ready io sources until quiescent"""
    n=0
    while n<max_iter:
        ready=[]
        for i,(kind,func,args,extra) in list(SOURCES.items()):
            if kind=='idle': ready.append(i)
            elif kind=='io':
                sock,cond=extra
                if cond==IO_IN and sock is not None and sock.readable(): ready.append(i)
                if cond==IO_OUT and sock is not None and sock.writable(): ready.append(i)
        if not ready: return n
        for i in ready:
            if i in SOURCES: _dispatch(i); n+=1
    return n
def fire_timeouts():
    for i,(kind,func,args,extra) in list(SOURCES.items()):
        if kind=='timeout' and i in SOURCES: _dispatch(i)
class MainLoop:
    def run(self): pass
    def quit(self): pass
