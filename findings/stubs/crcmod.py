import binascii, types
def _crc32c(data):
    crc=0xFFFFFFFF
    for b in data:
        crc^=b
        for _ in range(8): crc=(crc>>1)^(0x82F63B78 if crc&1 else 0)
    return crc^0xFFFFFFFF
def _x25(data):
    crc=0xFFFF
    for b in data:
        crc^=b
        for _ in range(8): crc=(crc>>1)^(0x8408 if crc&1 else 0)
    return crc^0xFFFF
predefined=types.SimpleNamespace(mkPredefinedCrcFun=lambda n: {'x-25':_x25,'crc-32c':_crc32c}[n])
