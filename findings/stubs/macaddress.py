# minimal stand-in for the 'macaddress' package
class HWAddress:
    def __init__(self, text): self.text = str(text)
    def __str__(self): return self.text
    def __eq__(self, o): return str(self) == str(o)
    def __hash__(self): return hash(self.text)
    def __bytes__(self): return bytes(int(p, 16) for p in self.text.replace('-', ':').split(':'))
class EUI48(HWAddress): pass
