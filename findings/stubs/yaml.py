def safe_load(f): return {}
