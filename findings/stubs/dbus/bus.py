BUS_SESSION=0;BUS_SYSTEM=1
class BusConnection: pass
