class DBusException(Exception): pass
