class DBusException(Exception): pass
class String(str): pass
class Array(list):
    def __init__(self, it=(), signature=None): list.__init__(self, it)
class Dictionary(dict):
    def __init__(self, it=(), signature=None): dict.__init__(self, it)
class ByteArray(bytes): pass
class Interface:
    def __init__(self,*a,**k): pass
from . import service, bus, exceptions
