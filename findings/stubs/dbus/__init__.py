class DBusException(Exception): pass
class String(str): pass
class Array(list):
    def __init__(self, it=(), signature=None): list.__init__(self, it)
class Dictionary(dict):
    def __init__(self, it=(), signature=None): dict.__init__(self, it)
class ByteArray(bytes): pass
class UInt64(int): pass
class UInt32(int): pass
class UInt16(int): pass
class Int64(int): pass
class Int32(int): pass
class Byte(int): pass
class Boolean(int): pass
class Interface:
    def __init__(self,*a,**k): pass
from . import service, bus, exceptions
