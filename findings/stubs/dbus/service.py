EMITTED=[]
def _split(sig):
    out=[];i=0
    def one(i):
        c=sig[i]
        if c=='a':
            j=one(i+1); return j
        if c=='{' or c=='(':
            close={'{':'}','(':')'}[c]; depth=0; j=i
            while True:
                if sig[j]==c: depth+=1
                if sig[j]==close:
                    depth-=1
                    if depth==0: return j+1
                j+=1
        return i+1
    while i<len(sig):
        j=one(i); out.append(sig[i:j]); i=j
    return out
def _check(t,v):
    if t=='s' or t=='o': return isinstance(v,str)
    if t in 'ytqiuxn': return isinstance(v,int) and not isinstance(v,bool) and (v>=0 or t in 'inx')
    if t=='b': return isinstance(v,(bool,int))
    if t=='v': return True
    if t.startswith('a{'): return isinstance(v,dict)
    if t=='ay': return isinstance(v,(bytes,bytearray,list))
    if t.startswith('a'): return hasattr(v,'__iter__')
    return True
class Object:
    def __init__(self, conn=None, object_path=None, **kw):
        self.locations=[(conn,object_path)]
    def remove_from_connection(self): self.locations=[]
class BusName:
    def __init__(self,*a,**k): pass
    def get_name(self): return 'stub'
def method(iface, in_signature='', out_signature='', **kw):
    def deco(f):
        f._dbus_method=(in_signature,out_signature); return f
    return deco
def signal(iface, signature='', **kw):
    def deco(f):
        parts=_split(signature)
        def emit(self,*args):
            f(self,*args)
            if len(args)!=len(parts): raise TypeError('signal %s arity %d != %d'%(f.__name__,len(args),len(parts)))
            for t,v in zip(parts,args):
                if not _check(t,v): raise TypeError('signal %s: %r does not fit %r'%(f.__name__,v,t))
            EMITTED.append((f.__name__,args))
        emit.__name__=f.__name__
        return emit
    return deco
