# minimal stand-in for the 'portion' package: unions of half-open integer intervals
class Interval:
    def __init__(self, parts=()):
        ps=sorted(p for p in parts if p[0]<p[1]); out=[]
        for lo,hi in ps:
            if out and lo<=out[-1][1]: out[-1]=(out[-1][0],max(out[-1][1],hi))
            else: out.append((lo,hi))
        self.parts=tuple(out)
    def __or__(self,o): return Interval(self.parts+o.parts)
    def __eq__(self,o): return self.parts==o.parts
    def __hash__(self): return hash(self.parts)
    def __contains__(self, x): return any(lo <= x < hi for (lo, hi) in self.parts)
    def __repr__(self): return ' | '.join('[%d,%d)'%p for p in self.parts) or '()'
    def __iter__(self):
        for p in self.parts:
            i=Interval([p]); yield i
    @property
    def lower(self): return self.parts[0][0]
    @property
    def upper(self): return self.parts[-1][1]
def closedopen(a,b): return Interval([(a,b)])
def empty(): return Interval()
class AbstractDiscreteInterval(Interval): pass
def create_api(cls):
    # integer-discrete API: closed(a,b) covers a..b inclusive
    import types
    return types.SimpleNamespace(empty=empty, singleton=lambda x: Interval([(x, x + 1)]), closed=lambda a, b: Interval([(a, b + 1)]))
def iterate(iv,step=1):
    for lo,hi in iv.parts:
        yield from range(lo,hi,step)
