class ValidationContext:
    def __init__(self,*a,**k): pass
class CertificateValidator:
    def __init__(self,*a,**k): pass
    def validate_usage(self,*a,**k): return True
