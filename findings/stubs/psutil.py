# minimal stand-in for 'psutil'
AF_LINK = 17
def net_if_addrs(): return {}
