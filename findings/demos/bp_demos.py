''' Triage demonstrations for the BP agent findings (real bp.* code, stubs for dbus/GLib/crcmod/portion). '''
import os, sys
HERE = os.path.dirname(os.path.abspath(__file__))
sys.path.insert(0, os.path.dirname(HERE))
from bp_harness import *            # noqa: F401,F403
import cbor2
from gi.repository import GLib

FWD = [RxRouteItem(eid_pattern=re.compile(r'dtn://far/.*'), action='forward')]
DLV = [RxRouteItem(eid_pattern=re.compile(r'dtn://me/.*'), action='deliver')]


def _tx(mtu=None):
    return [TxRouteItem(eid_pattern=re.compile(r'.*'), next_nodeid='dtn://next/', cl_type='fake', mtu=mtu)]


def _fwd(data, mtu=None, rx=FWD):
    a, cl = mkagent(rx=rx, tx=_tx(mtu))
    a.recv_bundle(BundleContainer(Bundle(data)))
    for _ in range(50):
        if not GLib.run_pending():
            break
    return a, cl


def _blocks(data):
    return cbor2.loads(data)


def f10_hop_count_on_wire():
    hop = CanonicalBlock(type_code=10, block_num=14, crc_type=2) / HopCountBlock(limit=30, count=3)
    a, cl = _fwd(mkbundle(blocks=[hop]))
    if not cl.sent:
        return 'DEMO-ERROR nothing forwarded: {}'.format(GLib.ERRORS)
    out = _blocks(cl.sent[0])
    hops = [cbor2.loads(b[4]) for b in out[1:] if b[0] == 10]
    if hops != [[30, 4]]:
        return 'forwarded bytes carry hop count {} instead of [30, 4]'.format(hops)
    return None


def f11_two_previous_node():
    p1 = CanonicalBlock(type_code=6, block_num=12, crc_type=2) / PreviousNodeBlock(node='dtn://old1/')
    p2 = CanonicalBlock(type_code=6, block_num=13, crc_type=2) / PreviousNodeBlock(node='dtn://old2/')
    a, cl = _fwd(mkbundle(blocks=[p1, p2]))
    if not cl.sent:
        return 'DEMO-ERROR nothing forwarded: {}'.format(GLib.ERRORS)
    prev = [cbor2.loads(b[4]) for b in _blocks(cl.sent[0])[1:] if b[0] == 6]
    if len(prev) != 1:
        return 'forwarded bundle carries {} Previous Node blocks: {}'.format(len(prev), prev)
    return None


def f12_creation_time_zero():
    a, cl = _fwd(mkbundle(dtntime=0))
    if not cl.sent:
        return 'DEMO-ERROR nothing forwarded: {}'.format(GLib.ERRORS)
    pri = _blocks(cl.sent[0])[0]
    if pri[6][0] != 0:
        return 'forwarded bundle had creation time 0, leaves with {}'.format(pri[6])
    return None


def f28_fragment_received_bundle():
    a, cl = _fwd(mkbundle(payload=b'p' * 300), mtu=120)
    sizes = [len(d) for d in cl.sent]
    if not sizes or max(sizes) > 120:
        return 'a received 300-octet payload routed over MTU 120 left as datagram sizes {} (errors {})'.format(sizes, GLib.ERRORS[:1])
    return None


def f03_oversize_after_failed_step():
    a, cl = _fwd(mkbundle(payload=b'p' * 300), mtu=40)
    sizes = [len(d) for d in cl.sent]
    if sizes and max(sizes) > 40:
        return 'fragmentation was impossible (MTU 40) yet {} octets were transmitted'.format(max(sizes))
    return None


def f23_fragmented_forward_reported_deleted():
    flags = int(PrimaryBlock.Flag.REQ_DELETION_REPORT | PrimaryBlock.Flag.REQ_FORWARDING_REPORT)
    a, cl = _fwd(mkbundle(payload=b'p' * 300, flags=flags, report_to='dtn://src/'), mtu=120)
    reports = []
    for d in cl.sent:
        arr = _blocks(d)
        if arr[0][1] & 0x2:
            rec = cbor2.loads(arr[-1][4])
            reports.append(rec[1][0])
    frags = [d for d in cl.sent if _blocks(d)[0][1] & 0x1]
    for st in reports:
        if st[3][0] and frags:
            return '{} fragments were sent, yet the status report asserts deleted: {}'.format(len(frags), st)
    return None


def _bpsec_agent(accept=True):
    import bp.app.bpsec
    from pycose.keys import SymmetricKey, keyops
    from pycose import algorithms
    GLib.SOURCES.clear(); GLib.ERRORS.clear()
    a, cl = mkagent(rx=DLV)
    a._config.accept_after_verify = accept
    return a, cl


def f14_string_reason():
    ''' a BIB whose target does not exist: verify raises, the except arm stores a str as the failure reason '''
    try:
        a, cl = _bpsec_agent()
    except Exception as err:
        return 'DEMO-ERROR cannot load bpsec: {}'.format(err)
    from bp.encoding import BlockIntegrityBlock, TypeValuePair, TargetResultList
    bib = CanonicalBlock(type_code=11, block_num=15, crc_type=2) / BlockIntegrityBlock(
        targets=[9], context_id=3, context_flags=1, source='dtn://src/',
        parameters=[TypeValuePair(type_code=5, value={0: 1})], results=[TargetResultList(results=[TypeValuePair(type_code=17, value=b'\x80')])])
    flags = int(PrimaryBlock.Flag.REQ_DELETION_REPORT)
    data = mkbundle(dst='dtn://me/svc', blocks=[bib], flags=flags)
    ctr = BundleContainer(Bundle(data))
    try:
        a.recv_bundle(ctr)
    except Exception as err:
        return 'recv_bundle raises {}: {!r} (reason recorded: {!r})'.format(type(err).__name__, str(err)[:60], ctr.status_reason)
    if isinstance(ctr.status_reason, str):
        return 'deletion reason recorded for the status report is the text {!r}, not a reason code'.format(ctr.status_reason[:50])
    return None


DEMOS = [f10_hop_count_on_wire, f11_two_previous_node, f12_creation_time_zero, f28_fragment_received_bundle, f03_oversize_after_failed_step,
         f23_fragmented_forward_reported_deleted, f14_string_reason]

if __name__ == '__main__':
    want = sys.argv[1:]
    for demo in DEMOS:
        if want and demo.__name__ not in want:
            continue
        try:
            res = demo()
        except Exception as err:
            import traceback
            res = 'DEMO-ERROR {}: {} @ {}'.format(type(err).__name__, err, ' | '.join(traceback.format_exc().strip().splitlines()[-4:]))
        print('{:40s} {}'.format(demo.__name__, ('DEFECT: ' + res) if res else 'holds'))
