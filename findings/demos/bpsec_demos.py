''' Triage demonstrations for the BPSec findings (real bp.app.bpsec with pycose). '''
import os, sys
HERE = os.path.dirname(os.path.abspath(__file__))
sys.path.insert(0, os.path.dirname(HERE))
from bp_harness import *            # noqa: F401,F403
import bp.app.bpsec as bpsec
from bp.app.bpsec import CoseContext, SecAssociation, SecOperation
from bp.encoding import BlockIntegrityBlock, BlockConfidentialityBlock
from pycose.keys import SymmetricKey, keyops, EC2Key, curves
from pycose import algorithms
from gi.repository import GLib
import cbor2


def _ctx(kid=b'k1', ops=(keyops.MacCreateOp, keyops.MacVerifyOp), alg=algorithms.HMAC256, accept=True, sec_type='bib'):
    ctx = CoseContext()
    ctx._config = Config(node_id='dtn://src/')
    ctx._config.accept_after_verify = accept
    key = SymmetricKey(k=b'0123456789abcdef0123456789abcdef', optional_params={'ALG': alg, 'KID': kid, 'KEY_OPS': list(ops)})
    ctx.sym_key_store[kid] = key
    ctx.sec_assoc.append(SecAssociation(src_pat=re.compile('.*'), dst_pat=re.compile('.*'), tgt_blk_types=[1],
                                        templates=[SecOperation(sec_type=sec_type, role='source', priv_key_id=kid)]))
    return ctx


def _bundle():
    ctr = BundleContainer(Bundle(mkbundle(dst='dtn://me/svc', payload=b'secret-payload')))
    return ctr


def f13_second_bib_not_verified():
    src = _ctx()
    ctr = _bundle()
    src.apply_bib(ctr)
    src.apply_bib(ctr)           # two integrity blocks over the payload
    ctr.bundle.fill_fields(); ctr.bundle.update_all_crc()
    data = bytearray(bytes(ctr.bundle))
    rx = BundleContainer(Bundle(bytes(data)))
    bibs = rx.block_type(BlockIntegrityBlock)
    if len(bibs) != 2:
        return 'DEMO-ERROR expected two BIBs, got {}'.format(len(bibs))
    # corrupt the MAC of the SECOND bib only
    second = bibs[1]
    res = second.payload.results[0].results[0]
    msg = cbor2.loads(bytes(res.value)); msg[-1] = bytes(len(msg[-1])); res.value = cbor2.dumps(msg)
    second.delfieldval('btsd')
    app = bpsec.Bpsec.__new__(bpsec.Bpsec)
    app._contexts = {bpsec.BPSEC_COSE_CONTEXT_ID: _ctx(accept=True)}
    rx.record_action('deliver')
    app._verify_bib(rx)
    if 'deliver' in rx.actions:
        return 'the second BIB carries a wrong MAC but the bundle stays marked for delivery (it was never visited: the first, accepted BIB was removed from the list being iterated)'
    return None


def f16_asymmetric_bcb():
    ctx = _ctx(sec_type='bcb')
    ctx.sym_key_store.clear()
    key = EC2Key.generate_key(curves.P256)
    key.kid = b'asym'; key.key_ops = [keyops.SignOp]; key.alg = algorithms.Es256
    ctx.asym_key_store[b'asym'] = key
    ctx.sec_assoc[0].templates[0].priv_key_id = b'asym'
    ctr = _bundle()
    before = ctr.block_num(1).getfieldval('btsd')
    try:
        ctx.apply_bcb(ctr)
    except Exception as err:
        return None   # refusing is correct
    bcbs = ctr.block_type(BlockConfidentialityBlock)
    if bcbs and ctr.block_num(1).getfieldval('btsd') == before:
        tag = bcbs[0].payload.results[0].results[0].type_code
        return 'a confidentiality block was added (result COSE tag {}) but the target data is still the plaintext'.format(tag)
    return None


DEMOS = [f13_second_bib_not_verified, f16_asymmetric_bcb]
if __name__ == '__main__':
    want = sys.argv[1:]
    for demo in DEMOS:
        if want and demo.__name__ not in want:
            continue
        try:
            res = demo()
        except Exception as err:
            import traceback
            res = 'DEMO-ERROR {}: {} @ {}'.format(type(err).__name__, err, ' | '.join(traceback.format_exc().strip().splitlines()[-4:]))
        print('{:40s} {}'.format(demo.__name__, ('DEFECT: ' + res) if res else 'holds'))
