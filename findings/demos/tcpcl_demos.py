''' Triage demonstrations for the TCPCL findings: each function drives the REAL
tcpcl.session code (stubs only for dbus / GLib) and returns a string describing
the defect when it manifests, or None when the behaviour is correct.
Not a check; used to decide fix / known-finding and to validate fixes. '''
import os, sys
HERE = os.path.dirname(os.path.abspath(__file__))
sys.path.insert(0, os.path.dirname(HERE))
from tcpcl_harness import *          # noqa: F401,F403  (real tcpcl.session + stubs)
import dbus.service
from gi.repository import GLib
from tcpcl import messages, contact


def _emitted(name):
    return [a for (n, a) in dbus.service.EMITTED if n == name]


def f01_zero_length():
    A, B, sa, sb = established()
    A.send_bundle_data(b'')
    A.send_bundle_data(b'hello')
    GLib.run_pending()
    got = sorted(B._rx_map)
    if len(got) != 2:
        return 'zero-length bundle blocks the queue: receiver holds {} of 2 bundles, sender queue {}'.format(len(got), list(A._tx_map))
    return None


def f02_new_transfer_after_term():
    A, B, sa, sb = established()
    A.terminate(0)
    try:
        A.send_bundle_data(b'late')
    except RuntimeError:
        pass  # refused at once (since fix 8886131): nothing can start
    n = sum(1 for m in _wire(sa, sb, A, B) if m == 'XFER_SEGMENT')
    if n:
        return 'a transfer was started after this side sent SESS_TERM ({} segment(s) on the wire)'.format(n)
    return None


def _wire(sa, sb, A, B):
    ''' run to quiescence while decoding what A writes '''
    seen = []
    orig = sa.send

    def spy(d):
        k = orig(d)
        buf = d[:k]
        while buf:
            try:
                pkt = messages.MessageHead(buf)
                seen.append({1: 'XFER_SEGMENT', 2: 'XFER_ACK', 3: 'XFER_REFUSE', 4: 'KEEPALIVE', 5: 'SESS_TERM', 6: 'MSG_REJECT', 7: 'SESS_INIT'}.get(pkt.msg_id, '?'))
                buf = buf[len(bytes(pkt)):]
            except Exception:
                break
        return k
    sa.send = spy
    GLib.run_pending()
    sa.send = orig
    return seen


def f06_idle_while_terminating():
    A, B, sa, sb = established(idle_time=5)
    # keep a transfer in flight towards A so that A cannot close on terminate
    A._rx_setup(99, None)   # (a real receive item: close() reports it since the close-report repair)
    A.terminate(0)
    GLib.ERRORS.clear()
    GLib.fire_timeouts()
    errs = [e for e in GLib.ERRORS if e[0] == '_idle_timeout']
    if errs:
        return 'idle timer while already terminating raises {} instead of closing'.format(errs[0][1:])
    if not sa.closed:
        return 'idle timer while already terminating does not close'
    return None


def f07_sess_term_before_init():
    GLib.SOURCES.clear(); GLib.ERRORS.clear(); dbus.service.EMITTED.clear()
    sa, sb = pair()
    B = mk(sb, True)
    B.start()
    inject(sb, contact.Head() / contact.ContactV4(flags=0))
    GLib.run_pending()
    GLib.ERRORS.clear()
    inject(sb, messages.MessageHead() / messages.SessionTerm(flags=0, reason=0))
    GLib.run_pending()
    if GLib.ERRORS:
        return 'SESS_TERM before SESS_INIT escapes the callback: {}'.format(GLib.ERRORS[0])
    return None


def f17_unknown_ack():
    A, B, sa, sb = established()
    GLib.ERRORS.clear()
    inject(sa, messages.MessageHead() / messages.TransferAck(transfer_id=99, flags=1, length=5))
    GLib.run_pending()
    if GLib.ERRORS:
        return 'XFER_ACK for an unknown transfer escapes the callback: {}'.format(GLib.ERRORS[0])
    return None


def f17b_ack_end_while_sending():
    ''' ACK with END for a transfer that is still being segmented (item not yet awaiting ACK) '''
    A, B, sa, sb = established(segment_size_tx_initial=4, segment_size_mru=4)
    sa.chunk = 0  # nothing leaves A: the transfer stays in progress
    A.send_bundle_data(b'0123456789')
    sa.chunk = None
    # run only A's queue once
    A._process_queue()
    tid = A._tx_tmp.transfer_id if A._tx_tmp else None
    if tid is None:
        return None
    GLib.ERRORS.clear()
    inject(sa, messages.MessageHead() / messages.TransferAck(transfer_id=tid, flags=1, length=10))
    A._rx_proxy(sa)
    return None


def f18_unknown_refuse():
    A, B, sa, sb = established()
    GLib.ERRORS.clear()
    inject(sa, messages.MessageHead() / messages.TransferRefuse(transfer_id=99, reason=1))
    GLib.run_pending()
    if GLib.ERRORS:
        return 'XFER_REFUSE for an unknown transfer escapes the callback: {}'.format(GLib.ERRORS[0])
    return None


def f19_refuse_known():
    ''' refusal of a transfer that awaits its ACK: must finish it (one finished signal, removed from the queue) '''
    A, B, sa, sb = established()
    B._do_send_ack_final = False   # B never acknowledges: the transfer stays pending on A
    B._do_send_ack_inter = False
    A.send_bundle_data(b'payload')
    GLib.run_pending()
    ids = list(A._tx_map)
    if not ids:
        return None
    GLib.ERRORS.clear(); dbus.service.EMITTED.clear()
    inject(sa, messages.MessageHead() / messages.TransferRefuse(transfer_id=ids[0], reason=2))
    GLib.run_pending()
    if GLib.ERRORS:
        return 'XFER_REFUSE of a pending transfer escapes the callback: {}'.format(GLib.ERRORS[0])
    fin = _emitted('send_bundle_finished')
    if len(fin) != 1 or ids[0] in A._tx_map:
        return 'refused transfer: finished signals {}, still queued {}'.format(fin, list(A._tx_map))
    return None


def f19b_send_refuse():
    A, B, sa, sb = established()
    try:
        B.send_xfer_refuse(7, messages.TransferRefuse.Reason.NO_RESOURCES)
    except Exception as err:
        return 'send_xfer_refuse cannot build its message: {}: {}'.format(type(err).__name__, err)
    return None


def f20_bad_magic():
    GLib.SOURCES.clear(); GLib.ERRORS.clear(); dbus.service.EMITTED.clear()
    sa, sb = pair()
    B = mk(sb, True)
    B.start()
    sb.rx += b'dtn?\x04\x00'
    GLib.run_pending()
    if GLib.ERRORS:
        return 'contact header with bad magic escapes the callback: {}'.format(GLib.ERRORS[0])
    if not sb.closed:
        return 'contact header with bad magic neither rejected nor closed'
    return None


def f20b_bad_version():
    GLib.SOURCES.clear(); GLib.ERRORS.clear(); dbus.service.EMITTED.clear()
    sa, sb = pair()
    B = mk(sb, True)
    B.start()
    sb.rx += b'dtn!\x05'
    GLib.run_pending()
    if GLib.ERRORS:
        return 'contact header with bad version escapes the callback: {}'.format(GLib.ERRORS[0])
    return None


def f22_flush_leaves_tx_map():
    A, B, sa, sb = established()
    # queue two bundles on A but do not let its queue run, then a SESS_TERM arrives
    A._process_queue_pend = 1
    A.send_bundle_data(b'one')
    A.send_bundle_data(b'two')
    dbus.service.EMITTED.clear()
    inject(sa, messages.MessageHead() / messages.SessionTerm(flags=0, reason=0))
    A._rx_proxy(sa)
    fin = _emitted('send_bundle_finished')
    left = A.send_bundle_get_queue()
    if len(fin) == 2 and left:
        return 'both queued bundles were reported finished ("session terminating") but the send queue still lists {}'.format(list(left))
    return None


def f04_contact_prefix():
    out = []
    for n in (1, 2, 3, 4, 5):
        GLib.SOURCES.clear(); GLib.ERRORS.clear(); dbus.service.EMITTED.clear()
        sa, sb = pair()
        B = mk(sb, True)
        B.start()
        whole = bytes(contact.Head() / contact.ContactV4(flags=0))
        sb.rx += whole[:n]
        GLib.run_pending()
        if GLib.ERRORS:
            out.append('{} octet(s): {}'.format(n, GLib.ERRORS[0][1]))
            continue
        sb.rx += whole[n:]
        GLib.run_pending()
        if GLib.ERRORS or not B._in_conn:
            out.append('{} octet(s) then rest: {}'.format(n, GLib.ERRORS[:1] or 'contact not accepted'))
    return 'contact header split across reads: ' + '; '.join(out) if out else None


def f05_lone_keepalive():
    A, B, sa, sb = established()
    sa.rx += b'\x04'
    GLib.run_pending()
    if A.recv_buffer_used() != 0:
        return 'a complete KEEPALIVE (1 octet) stays in the receive buffer ({} octet) until more arrives'.format(A.recv_buffer_used())
    return None


def f29_contact_with_trailing():
    GLib.SOURCES.clear(); GLib.ERRORS.clear(); dbus.service.EMITTED.clear()
    sa, sb = pair()
    A = mk(sa, False)
    A.start(); GLib.run_pending()
    whole = bytes(contact.Head() / contact.ContactV4(flags=0))
    si = bytes(messages.MessageHead() / messages.SessionInit(keepalive=3, segment_mru=100, transfer_mru=1000, nodeid_data='dtn://b/'))
    sa.rx += whole + si
    GLib.run_pending()
    if not A._in_sess:
        return 'contact header and SESS_INIT arriving in one read: the SESS_INIT octets are consumed with the header (in session: {}, buffer {})'.format(A._in_sess, A.recv_buffer_used())
    return None


def f30_unknown_message_type():
    A, B, sa, sb = established()
    sent = []
    orig = A.send_message
    A.send_message = lambda pkt: (sent.append(pkt), orig(pkt))[1]
    sa.rx += b'\x99\x01\x02\x03'
    GLib.run_pending()
    if GLib.ERRORS:
        return 'unknown message type: {}'.format(GLib.ERRORS[0][1])
    if not any(isinstance(p.payload, (messages.RejectMsg, messages.SessionTerm)) for p in sent) and not sa.closed:
        return 'unknown message type 0x99 is never answered (no MSG_REJECT, no SESS_TERM, no close): {} octets sit in the receive buffer and every later message is stuck behind them'.format(A.recv_buffer_used())
    return None


def f08_agent_stop():
    import tcpcl.agent
    from tcpcl.config import Config
    GLib.SOURCES.clear(); GLib.ERRORS.clear()
    cfg = Config(tls_enable=False, node_id='dtn://x/')
    cfg._bus_conn = object()
    ag = tcpcl.agent.Agent(cfg, bus_kwargs=dict(conn=None, object_path='/a'))
    socks = []
    for i in range(4):
        s1, s2 = pair()
        socks.append(s1)
        ag._bind_handler(config=cfg, sock=s1, toaddr=('10.0.0.2', 4556))
    ag.stop()
    still = [s for s in socks if not s.closed]
    if still:
        return 'Agent.stop() left {} of 4 connections open (list mutated while iterating)'.format(len(still))
    return None


DEMOS = [f01_zero_length, f02_new_transfer_after_term, f06_idle_while_terminating, f07_sess_term_before_init, f17_unknown_ack,
         f18_unknown_refuse, f19_refuse_known, f19b_send_refuse, f20_bad_magic, f20b_bad_version, f22_flush_leaves_tx_map,
         f04_contact_prefix, f05_lone_keepalive, f29_contact_with_trailing, f30_unknown_message_type, f08_agent_stop]

if __name__ == '__main__':
    want = sys.argv[1:]
    for demo in DEMOS:
        if want and demo.__name__ not in want:
            continue
        try:
            res = demo()
        except Exception as err:  # a demo that cannot run is reported, not counted
            import traceback
            res = 'DEMO-ERROR {}: {} @ {}'.format(type(err).__name__, err, traceback.format_exc().strip().splitlines()[-2])
        print('{:32s} {}'.format(demo.__name__, ('DEFECT: ' + res) if res else 'holds'))
