''' Triage demonstrations for the UDPCL / BTP-U / TLS-policy / SAFE findings (real code, stubs for missing libraries). '''
import os, sys, signal, types
HERE = os.path.dirname(os.path.abspath(__file__))
sys.path[:0] = [os.path.join(os.path.dirname(HERE), 'stubs'), '/repo/src']
import logging
logging.basicConfig(level=logging.CRITICAL)
from io import BytesIO
import cbor2
import dbus.service
from gi.repository import GLib


class _Timeout(Exception):
    pass


def _with_timeout(fn, secs=2):
    def handler(signum, frame):
        raise _Timeout()
    old = signal.signal(signal.SIGALRM, handler)
    signal.alarm(secs)
    try:
        return fn()
    finally:
        signal.alarm(0)
        signal.signal(signal.SIGALRM, old)


def _udpcl_agent(**cfg):
    import udpcl.agent as ua
    from udpcl.config import Config
    GLib.SOURCES.clear(); GLib.ERRORS.clear(); dbus.service.EMITTED.clear()
    c = Config(**cfg)
    c._bus_conn = object()
    return ua, ua.Agent(c, bus_kwargs=dict(conn=None, object_path='/u'))


def f15_udpcl_tiny_mtu():
    ua, ag = _udpcl_agent(mtu_default=8)
    item = ua.BundleItem(address='10.0.0.1', port=4556, file=BytesIO(b'x' * 200), transfer_id=1, total_length=200)

    def run():
        out = []
        for seg in ag._send_transfer(item):
            out.append(seg)
            if len(out) > 5000:
                return 'more than 5000 datagrams for a 200-octet bundle'
        return None
    try:
        res = _with_timeout(run)
    except _Timeout:
        return 'MTU 8 (smaller than the per-segment overhead): _send_transfer never returns (step <= 0, segment list grows without bound)'
    except (RuntimeError, ValueError):
        return None   # refusing is correct
    return res


def f26_udpcl_nodeid_type():
    ua, ag = _udpcl_agent(node_id='dtn://me/')
    conv = ua.Conversation(peer_address=__import__('ipaddress').ip_address('10.0.0.9'), peer_port=4556,
                           local_address=__import__('ipaddress').ip_address('10.0.0.1'), local_port=4556)
    extmap = {ua.ExtensionKey.SENDER_LISTEN: 1000, ua.ExtensionKey.SENDER_NODEID: 12345}
    from datetime import datetime, timezone
    try:
        ag._recv_ext_map(None, extmap, conv, datetime.now(timezone.utc))
    except TypeError as err:
        return 'a peer sending an integer SENDER_NODEID makes the polling_received emission fail on type grounds: {}'.format(err)
    return None


def _btpu_agent(**cfg):
    import btpu.agent as ba
    from btpu.config import Config
    GLib.SOURCES.clear(); GLib.ERRORS.clear(); dbus.service.EMITTED.clear()
    c = Config(**cfg)
    c._bus_conn = object()
    return ba, ba.Agent(c, bus_kwargs=dict(conn=None, object_path='/b'))


def f24_btpu_single_end_segment():
    ba, ag = _btpu_agent()
    from btpu.messages import MessageHead, TransferEnd, HintHead, MessageSet
    from scapy.packet import Raw
    msg = MessageHead() / TransferEnd(xfer_num=7, seg_idx=0) / Raw(b'whole-bundle')
    conv = types.SimpleNamespace(key=('if0', 'aa:bb'), local_if='if0', peer_address='aa:bb:cc:dd:ee:ff')
    ag._recv_msg(None, bytes(msg), conv)
    if not ag._rx_queue:
        return 'a transfer whose only segment is TransferEnd with index 0 is never queued (queue {})'.format(dict(ag._rx_queue))
    return None


def f25_btpu_tiny_mtu():
    ba, ag = _btpu_agent(mtu_default=14)
    item = ba.BundleItem(address='aa:bb:cc:dd:ee:ff', file=BytesIO(b'x' * 100), transfer_id=1, total_length=100)

    def run():
        n = 0
        for seg in ag._send_transfer(item):
            n += 1
            if n > 5000:
                return 'MTU 14 (not larger than the headers): more than 5000 segments for a 100-octet bundle, the generator never ends'
        return None
    try:
        return _with_timeout(run)
    except _Timeout:
        return 'MTU 14: _send_transfer never ends'
    except (RuntimeError, ValueError):
        return None


def f27_dns_only_cert_passive():
    ''' passive side (no DNS reference), host authentication required, certificate with a DNS name only '''
    import ssl
    if not hasattr(ssl, 'match_hostname'):
        ssl.match_hostname = lambda cert, name: None      # removed from the stdlib in Python 3.12; the repo targets older versions
    sys.path.insert(0, os.path.dirname(HERE))
    import tcpcl_harness as th
    from cryptography import x509
    from cryptography.x509.oid import NameOID
    from cryptography.hazmat.primitives import hashes, serialization
    from cryptography.hazmat.primitives.asymmetric import ec
    import datetime
    key = ec.generate_private_key(ec.SECP256R1())
    name = x509.Name([x509.NameAttribute(NameOID.COMMON_NAME, 'peer')])
    cert = (x509.CertificateBuilder().subject_name(name).issuer_name(name).public_key(key.public_key()).serial_number(1)
            .not_valid_before(datetime.datetime(2020, 1, 1)).not_valid_after(datetime.datetime(2040, 1, 1))
            .add_extension(x509.SubjectAlternativeName([x509.DNSName('some.other.host')]), critical=False).sign(key, hashes.SHA256()))
    der = cert.public_bytes(serialization.Encoding.DER)

    class FakeTls:
        def getpeercert(self, binary=False):
            return der if binary else {}
        def getpeername(self):
            return ('10.0.0.1', 1234)
    A, B, sa, sb = th.established()
    B._config.require_host_authn = True
    B._config.require_node_authn = False
    B.get_secure_socket = lambda: FakeTls()
    from tcpcl.session import TerminateError
    try:
        B.merge_session_params()
    except TerminateError:
        return None
    p = B._sess_parameters
    return 'host authentication required, certificate has only an unrelated DNS name (ip {} dns {}): session accepted'.format(p['authn_ipaddrid'], p['authn_dnsid'])


def f09_safe_consumes_foreign_bundle():
    sys.path.insert(0, os.path.dirname(HERE))
    import bp_harness as bh
    try:
        import bp.app.safe as safe
    except Exception as err:
        return 'DEMO-ERROR cannot import bp.app.safe: {}: {}'.format(type(err).__name__, err)
    import re
    called = []
    a, cl = bh.mkagent(rx=[bh.RxRouteItem(eid_pattern=re.compile(r'dtn://far/.*'), action='forward')],
                       tx=[bh.TxRouteItem(eid_pattern=re.compile(r'.*'), next_nodeid='dtn://n/', cl_type='fake')])
    app = a._app.get('safe')
    if app is None:
        return 'DEMO-ERROR safe app not registered'
    app._safe.recv_pdu = lambda adu, peer: called.append((adu, peer))
    a.recv_bundle(bh.BundleContainer(bh.Bundle(bh.mkbundle(dst='dtn://far/x', payload=b'not-for-safe'))))
    if called:
        return 'a bundle routed "forward" to dtn://far/x was handed to the SAFE protocol engine: {}'.format(called[0])
    return None


DEMOS = [f15_udpcl_tiny_mtu, f26_udpcl_nodeid_type, f24_btpu_single_end_segment, f25_btpu_tiny_mtu, f27_dns_only_cert_passive, f09_safe_consumes_foreign_bundle]
if __name__ == '__main__':
    want = sys.argv[1:]
    for demo in DEMOS:
        if want and demo.__name__ not in want:
            continue
        try:
            res = demo()
        except Exception as err:
            import traceback
            res = 'DEMO-ERROR {}: {} @ {}'.format(type(err).__name__, err, ' | '.join(traceback.format_exc().strip().splitlines()[-4:]))
        print('{:36s} {}'.format(demo.__name__, ('DEFECT: ' + res) if res else 'holds'))
