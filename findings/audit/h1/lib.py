"""Shared helpers for the demos: tapped socket pair, independent RFC 9174 stream
decoder, random single-step scheduler."""
import struct, random
import tcpcl_harness as H
from tcpcl_harness import GLib, dbus

class TapSock(H.FakeSock):
    """FakeSock that also records every octet it accepted for sending."""
    def __init__(self,*a):
        super().__init__(*a); self.wire=b''
    def send(self,d):
        k=super().send(d); self.wire+=d[:k]; return k

def established(cfg_a=None,cfg_b=None):
    GLib.SOURCES.clear(); GLib.ERRORS.clear(); dbus.service.EMITTED.clear()
    a=TapSock('a','10.0.0.2'); b=TapSock('b','10.0.0.1'); a.peer=b; b.peer=a
    A=H.mk(a,False,**(cfg_a or {})); B=H.mk(b,True,**(cfg_b or {}))
    A.start(); B.start(); GLib.run_pending()
    return A,B,a,b

class Trunc(Exception): pass

def parse_stream(data):
    """Independent RFC 9174 decoder. Returns (list of message dicts, leftover octets)."""
    out=[]; p=0
    def need(n):
        if p+n>len(data): raise Trunc()
    try:
        need(6)
        if data[:4]!=b'dtn!': raise ValueError('bad magic')
        out.append(dict(t='CH',ver=data[4],flags=data[5])); p=6
        while p<len(data):
            start=p
            t=data[p]; q=p+1
            def take(n):
                nonlocal q
                if q+n>len(data): raise Trunc()
                r=data[q:q+n]; q+=n; return r
            if t==1:
                fl=take(1)[0]; tid=struct.unpack('!Q',take(8))[0]; exts=[]
                if fl&2:
                    el=struct.unpack('!I',take(4))[0]; eb=take(el); e=0
                    while e<len(eb):
                        efl,ety,eln=struct.unpack('!BHH',eb[e:e+5]); exts.append((efl,ety,eb[e+5:e+5+eln])); e+=5+eln
                ln=struct.unpack('!Q',take(8))[0]; d=take(ln)
                out.append(dict(t='SEG',flags=fl,tid=tid,exts=exts,data=d))
            elif t==2:
                fl=take(1)[0]; tid,ln=struct.unpack('!QQ',take(16)); out.append(dict(t='ACK',flags=fl,tid=tid,len=ln))
            elif t==3:
                r=take(1)[0]; tid=struct.unpack('!Q',take(8))[0]; out.append(dict(t='REFUSE',reason=r,tid=tid))
            elif t==4: out.append(dict(t='KA'))
            elif t==5:
                fl,r=take(2); out.append(dict(t='TERM',flags=fl,reason=r))
            elif t==6:
                mid,r=take(2); out.append(dict(t='REJECT',msg=mid,reason=r))
            elif t==7:
                ka,smru,tmru,nl=struct.unpack('!HQQH',take(20)); nid=take(nl); el=struct.unpack('!I',take(4))[0]; take(el)
                out.append(dict(t='INIT',keepalive=ka,segment_mru=smru,transfer_mru=tmru,nodeid=nid))
            else:
                raise ValueError('unknown type %d at %d'%(t,p))
            p=q
    except Trunc:
        return out,data[p:]
    return out,b''

def check_c04(msgs,leftover,peer_msgs):
    """Return list of violations of C04 in one direction."""
    v=[]
    if leftover: v.append('stream ends inside a message (%d stray octets)'%len(leftover))
    kinds=[m['t'] for m in msgs]
    if not kinds or kinds[0]!='CH': v.append('first is not contact header'); return v
    if len(kinds)>1 and kinds[1]!='INIT': v.append('second message is %s not SESS_INIT'%kinds[1])
    if kinds.count('INIT')>1: v.append('%d SESS_INIT'%kinds.count('INIT'))
    if kinds.count('TERM')>1: v.append('%d SESS_TERM'%kinds.count('TERM'))
    mru=None
    for m in peer_msgs:
        if m['t']=='INIT': mru=m['segment_mru']; break
    seen=set(); cur=None; clen=0; termed=False
    for m in msgs:
        if m['t']=='TERM': termed=True
        if m['t']=='SEG':
            if mru is not None and len(m['data'])>mru: v.append('segment %d octets > peer MRU %d'%(len(m['data']),mru))
            if m['flags']&2:
                if termed: v.append('new transfer %d after SESS_TERM'%m['tid'])
                if cur is not None: v.append('START of %d while %d open'%(m['tid'],cur))
                if m['tid'] in seen: v.append('transfer id %d reused'%m['tid'])
                seen.add(m['tid']); cur=m['tid']; clen=0
                tl=[e for e in m['exts'] if e[1]==1]
                if len(tl)!=1: v.append('START of %d without total-length ext'%m['tid'])
                else: m['_total']=struct.unpack('!Q',tl[0][2])[0]
            else:
                if cur!=m['tid']: v.append('non-START segment of %d but open is %s'%(m['tid'],cur))
            clen+=len(m['data'])
            if m['flags']&1: cur=None
    return v

def step_random(rng,max_steps=100000,hook=None):
    """Dispatch ready sources one at a time in random order until quiescent."""
    n=0
    while n<max_steps:
        ready=[]
        for i,(kind,func,args,extra) in list(GLib.SOURCES.items()):
            if kind=='idle': ready.append(i)
            elif kind=='io':
                sock,cond=extra
                if sock is None: continue
                if cond==GLib.IO_IN and sock.readable(): ready.append(i)
                if cond==GLib.IO_OUT and sock.writable(): ready.append(i)
        if not ready: return n
        i=rng.choice(ready)
        GLib._dispatch(i); n+=1
        if hook: hook(n)
    return n
