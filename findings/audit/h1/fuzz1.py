import sys, random, os
sys.path.insert(0,'/tmp/hunt/out1')
from lib import *
def finished(name):
    return [a for (n,a) in dbus.service.EMITTED if n==name]
def run(seed,verbose=False):
    rng=random.Random(seed)
    mru_a=rng.choice([1,2,3,7,100,1000,10240,10*1024*1024]); mru_b=rng.choice([1,2,3,7,100,1000,10240,10*1024*1024])
    ini_a=rng.choice([1,5,64,1000,100000]); ini_b=rng.choice([1,5,64,1000,100000])
    mod=rng.choice([None,None,1])
    A,B,sa,sb=established(dict(segment_size_mru=mru_a,segment_size_tx_initial=ini_a,modulate_target_ack_time=mod),dict(segment_size_mru=mru_b,segment_size_tx_initial=ini_b,modulate_target_ack_time=mod))
    sa.chunk=rng.choice([None,1,3,17,1000]); sb.chunk=rng.choice([None,1,3,17,1000])
    lens=[0,1,2,3,6,7,8,99,100,101,300] if min(mru_a,mru_b,ini_a,ini_b)<64 else [0,1,2,3,64,100,1000,2000,30000]
    qa=[];qb=[]
    todo=rng.randrange(1,7)
    do_term=rng.random()<0.4
    term_at=rng.randrange(0,400)
    termed=[False]
    def enqueue():
        n=rng.choice(lens); d=bytes(rng.randrange(256) for _ in range(min(n,50)))*(n//50+1); d=d[:n]
        if rng.random()<0.5: tid=A.send_bundle_data(d); qa.append((tid,d))
        else: tid=B.send_bundle_data(d); qb.append((tid,d))
    pend=[todo]
    def hook(n):
        if pend[0]>0 and rng.random()<0.05:
            pend[0]-=1; enqueue()
        if do_term and not termed[0] and n>=term_at and pend[0]==0:
            termed[0]=True
            try: (A if rng.random()<0.5 else B).terminate(0)
            except RuntimeError: pass
    enqueue(); pend[0]-=1
    step_random(rng,hook=hook,max_steps=3000000)
    while pend[0]>0 and not termed[0]:
        pend[0]-=1; enqueue(); step_random(rng,hook=hook,max_steps=3000000)
    problems=[]
    if GLib.ERRORS: problems.append(('ERRORS',list(GLib.ERRORS)))
    ma,la=parse_stream(sa.wire); mb,lb=parse_stream(sb.wire)
    for nm,(m,l,pm) in dict(A=(ma,la,mb),B=(mb,lb,ma)).items():
        v=check_c04(m,l,pm)
        if v: problems.append(('C04 '+nm,v))
    # acks
    for nm,(segs_from,acks_from) in dict(AtoB=(ma,mb),BtoA=(mb,ma)).items():
        segs=[m for m in segs_from if m['t']=='SEG']; acks=[m for m in acks_from if m['t']=='ACK']
        cum={}
        exp=[]
        for s in segs:
            if s['flags']&2: cum[s['tid']]=0
            cum[s['tid']]=cum.get(s['tid'],0)+len(s['data']); exp.append((s['flags'],s['tid'],cum[s['tid']]))
        got=[(a['flags'],a['tid'],a['len']) for a in acks]
        if got!=exp[:len(got)]: problems.append(('ACK mismatch '+nm,got[:5],exp[:5]))
    # delivery
    for nm,(q,S,R) in dict(A=(qa,A,B),B=(qb,B,A)).items():
        rq=list(R.recv_bundle_get_queue())
        got=[bytes(R.recv_bundle_pop_data(x)) for x in rq]
        want=[d for (_,d) in q]
        succ=[a for a in dbus.service.EMITTED if a[0]=='send_bundle_finished']
        if not termed[0]:
            if got!=want: problems.append(('delivery '+nm,[len(g) for g in got],[len(w) for w in want]))
        else:
            if got!=want[:len(got)]: problems.append(('delivery-prefix '+nm,[len(g) for g in got],[len(w) for w in want]))
    return problems,dict(mru=(mru_a,mru_b),ini=(ini_a,ini_b),chunk=(sa.chunk,sb.chunk),term=termed[0],mod=mod,na=len(qa),nb=len(qb))
if __name__=='__main__':
    lo=int(sys.argv[1]); hi=int(sys.argv[2])
    for s in range(lo,hi):
        try:
            p,info=run(s)
        except Exception as e:
            import traceback; traceback.print_exc(); p=[('EXC',repr(e))]; info={}
        if p: print(s,info,p)
