"""C01: "Every bundle queued for sending on either side of an established TCPCL session ...
appears in the peer's receive queue exactly once" / C04 quantifier "all points at which the
user requests termination".

ContactHandler._check_sess_term() closes the socket when *this* side has sent SESS_TERM and is
momentarily idle.  It does not wait for the peer's SESS_TERM.  RFC 9174 sec. 6.1 lets the peer
finish every transfer it started before it saw our SESS_TERM; its SESS_TERM (sent after those
START segments) is what tells us nothing more is coming.  Closing on the first idle moment cuts
a transfer the peer legitimately started.

Schedule (both directions have network latency, nothing else unusual):
  A queues bundle a1 and its user calls terminate():      A->B stream: SEG(a1) SESS_TERM
  SEG(a1) reaches B, B acknowledges it; B's user queues b1 (B is still 'established'),
  B starts b1; only then A's SESS_TERM reaches B.          B->A stream: ACK(a1) SEG(b1) SESS_TERM
  ACK(a1) reaches A: A is in_term and idle -> close().     SEG(b1) arrives at a closed socket.
"""
import sys
sys.path.insert(0, '/tmp/hunt/out1')
from lib import established, parse_stream, GLib, dbus

A, B, sa, sb = established()

class Link:
    """One direction of the TCP connection with latency: octets wait until deliver()."""
    def __init__(self, src, dst):
        self.buf = bytearray(); self.src = src; self.dst = dst
        def send(d):
            if dst.closed: raise OSError('closed')
            self.buf.extend(d); src.wire += d; return len(d)
        src.send = send
    def deliver(self, n=None):
        n = len(self.buf) if n is None else n
        if not self.dst.closed: self.dst.rx += bytes(self.buf[:n])
        del self.buf[:n]
ab = Link(sa, sb); ba = Link(sb, sa)

a1 = b'A' * 40
b1 = b'B' * 50
A.send_bundle_data(a1)
GLib.run_pending()
A.terminate(0)
GLib.run_pending()
assert bytes(ab.buf[-3:]) == b'\x05\x00\x00'
ab.deliver(len(ab.buf) - 3)          # SEG(a1) arrives at B, SESS_TERM still in the network
GLib.run_pending()                   # B acknowledges a1
assert B.get_session_state() == 'established'
tid_b1 = B.send_bundle_data(b1)      # B's user queues b1 on the established session
GLib.run_pending()                   # B starts (and here completes sending) b1
ab.deliver()                         # now A's SESS_TERM arrives at B
GLib.run_pending()                   # B replies SESS_TERM
kinds_b = [m['t'] for m in parse_stream(sb.wire)[0]]
ba.deliver(18)                       # ACK(a1) arrives at A first ...
GLib.run_pending()
closed_early = sa.closed
ba.deliver()                         # ... SEG(b1) and SESS_TERM a moment later
GLib.run_pending()
ab.deliver(); GLib.run_pending()     # whatever A still wrote reaches B

held = [bytes(A.recv_bundle_pop_data(x)) for x in A.recv_bundle_get_queue()]
fin = [a for (n, a) in dbus.service.EMITTED if n == 'send_bundle_finished']
print('B->A stream written by B: %s' % kinds_b)
print('expected: A keeps the connection until B\'s SESS_TERM has arrived, so b1 (started by B before it saw any SESS_TERM)')
print('          is received: A holds [50 octets], B emits send_bundle_finished(%s, 50, success)' % tid_b1)
print('observed: A closed the socket right after ACK(a1), before B\'s SESS_TERM: %s' % closed_early)
print('          bundles held by A: %s' % [len(h) for h in held])
print('          send_bundle_finished signals: %s' % fin)
bad = closed_early and held != [b1]
print('DEFECT SHOWN' if bad else 'ok')
sys.exit(1 if bad else 0)
