"""C04 (octets written are exactly whole messages; every segment is answered by its XFER_ACK)
and the two-layer TX buffer named in the C01/C04 anchors.

ContactHandler._check_sess_term() closes the socket as soon as is_sess_idle() is true, and
Messenger.is_sess_idle() looks only at the *messenger* TX buffer.  Octets that were already
moved down into Connection.__tx_buf but not yet accepted by the (back-pressured) socket are
thrown away by close(): the stream ends in the middle of a message.

Schedule: A's socket takes one octet per send() (slow link).  B sends a bundle, A's user
calls terminate().  A receives the bundle completely and queues the final XFER_ACK behind its
SESS_TERM; B's SESS_TERM reply arrives while that ACK is still trickling out; A closes.
"""
import sys
sys.path.insert(0, '/tmp/hunt/out1')
from lib import established, parse_stream, GLib, dbus

A, B, sa, sb = established()
sa.chunk = 1                                   # A -> B direction is back-pressured (1 octet per send)

# B -> A direction has latency: octets written by B sit "in the network" until delivered
transit = bytearray()
def b_send(d):
    transit.extend(d); sb.wire += d; return len(d)
sb.send = b_send
def deliver(n):
    sa.rx += bytes(transit[:n]); del transit[:n]

data = b'0123456789'
tid = B.send_bundle_data(data)                 # B -> A transfer (one START|END segment)
A.terminate(0)                                 # user of A asks for termination
GLib.run_pending()                             # A's SESS_TERM reaches B; B has written XFER_SEGMENT then its SESS_TERM reply
assert bytes(transit[-3:]) == b'\x05\x01\x00', transit.hex()
deliver(len(transit) - 3)                      # the segment arrives at A ...
GLib.run_pending(max_iter=4)                   # ... A takes it, queues the XFER_ACK, a few octets of it get out
deliver(3)                                     # ... then B's SESS_TERM reply arrives
GLib.run_pending()

msgs, leftover = parse_stream(sa.wire)
kinds = [m['t'] for m in msgs]
a_holds = [bytes(A.recv_bundle_pop_data(x)) for x in A.recv_bundle_get_queue()]
fin = [a for (n, a) in dbus.service.EMITTED if n == 'send_bundle_finished']

print('expected: A->B stream = CH, INIT, TERM, ACK(END, %d octets) and nothing else; B emits send_bundle_finished(%s, %d, success)' % (len(data), tid, len(data)))
print('observed: A->B stream = %s followed by %d stray octets %s (an XFER_ACK is 18 octets)' % (kinds, len(leftover), leftover.hex()))
print('          A closed its socket: %s ; A holds the bundle: %s' % (sa.closed, a_holds == [data]))
print('          send_bundle_finished signals at B: %s' % fin)
print('          escaped exceptions: %s' % GLib.ERRORS)
bad = bool(leftover) or 'ACK' not in kinds
print('DEFECT SHOWN' if bad else 'ok')
sys.exit(1 if bad else 0)
