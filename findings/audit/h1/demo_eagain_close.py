"""C01 (back-pressure): a full kernel send buffer makes the sender close the connection.

Connection.send_ready() schedules _avail_tx_notls twice: as an IO_OUT watch (runs only
when the socket is writable) and as an idle callback (runs regardless).  _tx_proxy treats
*any* socket.error from send() - including BlockingIOError/EAGAIN from the non-blocking
socket - as "connection closed" and calls close().  So as soon as the peer reads more
slowly than we write, the idle-path send hits EAGAIN and the session is torn down with
the bundle half sent.

Uses REAL non-blocking OS sockets (socket.socketpair) under the harness' GLib stand-in,
so the back-pressure is the kernel's, not a stub's.
"""
import sys, socket, select
import tcpcl_harness as H
from tcpcl_harness import GLib, dbus

class RealSock:
    """Thin wrapper: a real socket plus the readable()/writable() the GLib stand-in polls."""
    def __init__(self, s, peername): self.s=s; self._pn=peername; self.name=peername
    def __getattr__(self, n): return getattr(self.s, n)
    def getpeername(self): return (self._pn, 4556)
    def readable(self):
        return self.s.fileno()>=0 and bool(select.select([self.s],[],[],0)[0])
    def writable(self):
        return self.s.fileno()>=0 and bool(select.select([],[self.s],[],0)[1])

def mk(sock, name, passive):
    c=H.Config(tls_enable=False, node_id='dtn://%s/'%name)
    kw=dict(config=c, sock=sock)
    if passive: kw['fromaddr']=('10.0.0.1',1234)
    else: kw['toaddr']=('10.0.0.2',4556)
    return H.ContactHandler(hdl_kwargs=kw, bus_kwargs=dict(conn=None, object_path='/c/'+name))


import logging
class Grab(logging.Handler):
    def __init__(self): super().__init__(); self.lines=[]
    def emit(self, rec):
        if rec.levelno>=logging.ERROR: self.lines.append(rec.getMessage())
grab=Grab(); logging.getLogger('tcpcl').addHandler(grab); logging.getLogger('tcpcl').setLevel(logging.ERROR); logging.getLogger('tcpcl').propagate=False

def run_only(owner, rounds):
    """Run only `owner`'s event-loop callbacks (the other agent's loop is delayed)."""
    for _ in range(rounds):
        ready=[]
        for i,(kind,func,args,extra) in list(GLib.SOURCES.items()):
            if getattr(func,'__self__',None) is not owner: continue
            if kind=='idle': ready.append(i)
            elif kind=='io':
                s,cond=extra
                if s is None: continue
                if cond==GLib.IO_IN and s.readable(): ready.append(i)
                if cond==GLib.IO_OUT and s.writable(): ready.append(i)
        if not ready: break
        for i in ready:
            if i in GLib.SOURCES: GLib._dispatch(i)

def scenario(stall_b, size):
    GLib.SOURCES.clear(); GLib.ERRORS.clear(); dbus.service.EMITTED.clear(); grab.lines.clear()
    ra, rb = socket.socketpair()
    sa, sb = RealSock(ra,'10.0.0.2'), RealSock(rb,'10.0.0.1')
    A=mk(sa,'a',False); B=mk(sb,'b',True)
    A.start(); B.start(); GLib.run_pending()
    assert A.get_session_state()=='established' and B.get_session_state()=='established'
    bundle = bytes(range(256))*(size//256)
    tid = A.send_bundle_data(bundle)
    if stall_b:
        # B's event loop is busy elsewhere for a moment: only A runs, the kernel buffer fills up.
        run_only(A, 2000)
    GLib.run_pending(500000)       # both loops run freely, every ready source each round
    got = [bytes(B.recv_bundle_pop_data(x)) for x in B.recv_bundle_get_queue()]
    fin = [a for (n,a) in dbus.service.EMITTED if n=='send_bundle_finished']
    print('--- bundle of %d octets, default configuration, %s'%(size,'B event loop delayed at first' if stall_b else 'both event loops running all the time'))
    print('expected: sender waits until the socket is writable again; bundle arrives intact; send_bundle_finished(%s, %d, success)'%(tid,size))
    print('observed: error logged by A: %s' % grab.lines[:1])
    print('          A closed its own socket: %s' % (ra.fileno()<0))
    print('          bundles in B receive queue: %s' % [len(g) for g in got])
    print('          send_bundle_finished signals: %s' % fin)
    for s in (ra,rb):
        try: s.close()
        except Exception: pass
    return got != [bundle]

ctl = scenario(False, 64*1024)          # control: fits the kernel buffer, must work
bad1 = scenario(False, 8*1024*1024)
bad2 = scenario(True, 8*1024*1024)
bad = bad1 or bad2
if ctl: print('control failed - environment problem'); sys.exit(2)
print('DEFECT SHOWN' if bad else 'ok')
sys.exit(1 if bad else 0)
