"""C04 "one contact header, then one SESS_INIT" - needs a NON-CONFORMING peer (lower severity).

Messenger.recv_message() handles SESS_INIT the same way in every phase: a passive endpoint
answers each received SESS_INIT with another SESS_INIT of its own (and both roles silently
re-run merge_session_params(), resetting segment size / timers in the middle of the session)
instead of answering MSG_REJECT(UNEXPECTED).
"""
import sys
sys.path.insert(0, '/tmp/hunt/out1')
from lib import established, parse_stream, GLib, dbus
import tcpcl_harness as H
from tcpcl import messages

A, B, sa, sb = established()
before = [m['t'] for m in parse_stream(sb.wire)[0]]
dup = bytes(messages.MessageHead() / messages.SessionInit(keepalive=0, segment_mru=5, nodeid_data='dtn://a/'))
H.inject(sb, dup)                     # B (passive, session established) reads a second SESS_INIT
GLib.run_pending()
after = parse_stream(sb.wire)[0]
kinds = [m['t'] for m in after]
print('expected: B->A stream stays %s plus MSG_REJECT(msg 7, UNEXPECTED)' % before)
print('observed: B->A stream is     %s ; B segment size now %d (was 102400)' % (kinds, B._send_segment_size))
bad = kinds.count('INIT') > 1
print('DEFECT SHOWN' if bad else 'ok')
sys.exit(1 if bad else 0)
