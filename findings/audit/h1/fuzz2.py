import sys, random, os
sys.path.insert(0,'/tmp/hunt/out1')
from lib import *
import tcpcl_harness as H
def run(seed):
    rng=random.Random(seed)
    sizes=[1,2,3,7,100,1000,10240,10*1024*1024]
    mru_a=rng.choice(sizes); mru_b=rng.choice(sizes)
    ini_a=rng.choice([1,5,64,1000,100000]); ini_b=rng.choice([1,5,64,1000,100000])
    ka_a=rng.choice([0,0,5,30]); ka_b=rng.choice([0,0,5,30]); idle_a=rng.choice([0,0,10]); idle_b=rng.choice([0,0,10])
    GLib.SOURCES.clear(); GLib.ERRORS.clear(); dbus.service.EMITTED.clear()
    sa=TapSock('a','10.0.0.2'); sb=TapSock('b','10.0.0.1'); sa.peer=sb; sb.peer=sa
    A=H.mk(sa,False,segment_size_mru=mru_a,segment_size_tx_initial=ini_a,keepalive_time=ka_a,idle_time=idle_a)
    B=H.mk(sb,True,segment_size_mru=mru_b,segment_size_tx_initial=ini_b,keepalive_time=ka_b,idle_time=idle_b)
    sa.chunk=rng.choice([None,1,3,17,1000]); sb.chunk=rng.choice([None,1,3,17,1000])
    small=min(mru_a,mru_b,ini_a,ini_b)<64
    lens=[0,1,2,3,6,7,8,99,100,101,300] if small else [0,1,2,3,64,100,1000,2000,30000]
    q={'A':[],'B':[]}; ends={'A':A,'B':B}; other={'A':B,'B':A}
    problems=[]
    popped={'A':[],'B':[]}
    nsig=[0]
    def enqueue():
        n=rng.choice(lens); d=bytes(rng.randrange(256) for _ in range(min(n,50)))*(n//50+1); d=d[:n]
        w=rng.choice('AB'); tid=ends[w].send_bundle_data(d); q[w].append((tid,d))
    def holds(R,tid,d):
        it=R._rx_map.get(int(tid))
        if it is not None and it.file.getvalue()==d: return True
        return False
    def check_signals():
        em=dbus.service.EMITTED
        while nsig[0]<len(em):
            name,args=em[nsig[0]]; nsig[0]+=1
            if name=='send_bundle_finished' and args[2]=='success':
                # which side? find by tid and data
                cands=[w for w in 'AB' if any(t==args[0] for t,_ in q[w])]
                ok=False
                for w in cands:
                    d=dict(q[w])[args[0]]
                    R=other[w]
                    if holds(R,args[0],d) or (args[0],d) in popped[w]: ok=True
                if not ok: problems.append(('success without receiver holding',args))
    termed=[0]
    pend=[rng.randrange(1,7)]
    do_term=rng.random()<0.5; term_at=rng.randrange(0,300)
    pre=rng.random()<0.3
    if pre:
        enqueue(); pend[0]-=1
    A.start(); B.start()
    def hook(n):
        check_signals()
        if pend[0]>0 and rng.random()<0.05:
            pend[0]-=1; enqueue()
        if rng.random()<0.01:
            # user pops
            w=rng.choice('AB'); R=ends[w]
            for x in list(R.recv_bundle_get_queue())[:1]:
                d=bytes(R.recv_bundle_pop_data(x)); popped[{'A':'B','B':'A'}[w]].append((x,d))
        if rng.random()<0.01:
            tos=[i for i,(k,f,a,e) in GLib.SOURCES.items() if k=='timeout' and f.__name__=='_keepalive_timeout']
            if tos: GLib._dispatch(rng.choice(tos))
        if do_term and n>=term_at and pend[0]==0 and termed[0]<2 and rng.random()<0.02:
            termed[0]+=1
            try: rng.choice([A,B]).terminate(rng.randrange(6))
            except RuntimeError: pass
    step_random(rng,hook=hook,max_steps=3000000)
    while pend[0]>0:
        pend[0]-=1; enqueue(); step_random(rng,hook=hook,max_steps=3000000)
    # at quiescence an idle timer may fire
    for _ in range(3):
        tos=[i for i,(k,f,a,e) in GLib.SOURCES.items() if k=='timeout' and f.__name__=='_idle_timeout']
        if tos and rng.random()<0.5:
            GLib._dispatch(rng.choice(tos)); step_random(rng,hook=hook,max_steps=3000000)
    check_signals()
    if GLib.ERRORS: problems.append(('ERRORS',list(GLib.ERRORS)[:3]))
    ma,la=parse_stream(sa.wire); mb,lb=parse_stream(sb.wire)
    for nm,(m,l,pm) in dict(A=(ma,la,mb),B=(mb,lb,ma)).items():
        v=check_c04(m,l,pm)
        if v: problems.append(('C04 '+nm,v))
    for nm,(segs_from,acks_from) in dict(AtoB=(ma,mb),BtoA=(mb,ma)).items():
        segs=[m for m in segs_from if m['t']=='SEG']; acks=[m for m in acks_from if m['t']=='ACK']
        cum={}; exp=[]
        for s in segs:
            if s['flags']&2: cum[s['tid']]=0
            cum[s['tid']]=cum.get(s['tid'],0)+len(s['data']); exp.append((s['flags'],s['tid'],cum[s['tid']]))
        got=[(a['flags'],a['tid'],a['len']) for a in acks]
        if got!=exp[:len(got)]: problems.append(('ACK mismatch '+nm,got[:5],exp[:5]))
    if any(m['t'] in ('REJECT','REFUSE') for m in ma+mb): problems.append(('REJECT seen',[m for m in ma+mb if m['t'] in ('REJECT','REFUSE')][:3]))
    anyterm = any(m['t']=='TERM' for m in ma+mb) or A._in_term or B._in_term
    for w in 'AB':
        R=other[w]
        got=[d for (_,d) in popped[w]]+[bytes(R.recv_bundle_pop_data(x)) for x in list(R.recv_bundle_get_queue())]
        want=[d for (_,d) in q[w]]
        if not anyterm:
            if got!=want: problems.append(('delivery '+w,[len(g) for g in got],[len(x) for x in want]))
            succ=[a[0] for (n,a) in dbus.service.EMITTED if n=='send_bundle_finished' and a[2]=='success']
        else:
            if got!=want[:len(got)]: problems.append(('delivery-prefix '+w,[len(g) for g in got],[len(x) for x in want]))
    return problems,dict(mru=(mru_a,mru_b),ini=(ini_a,ini_b),chunk=(sa.chunk,sb.chunk),term=termed[0],ka=(ka_a,ka_b,idle_a,idle_b),pre=pre,n=(len(q['A']),len(q['B'])),st=(A._state,B._state))
if __name__=='__main__':
    lo=int(sys.argv[1]); hi=int(sys.argv[2])
    for s in range(lo,hi):
        try: p,info=run(s)
        except Exception as e:
            import traceback; traceback.print_exc(); p=[('EXC',repr(e))]; info={}
        if p: print(s,info,p)
