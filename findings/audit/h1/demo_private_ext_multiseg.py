"""C01, configuration switch enable_test={'private_extensions'}: "Every bundle queued ...,
whatever its length (... many segments) ... appears in the peer's receive queue".
Also C04 "only the last carries END" is never reached: the transfer is left open for ever.

ContactHandler._process_queue() appends the private transfer extension item to ext_items for
EVERY segment, Messenger.send_xfer_data() raises RuntimeError('Cannot send extension items
outside of START message') for every segment that is not the first.  The exception escapes
the idle callback, _tx_tmp stays set, and the head-of-line transfer (and every bundle queued
behind it) is stuck.  A single-segment bundle works, any bundle longer than the segment size
does not.
"""
import sys
sys.path.insert(0, '/tmp/hunt/out1')
from lib import established, parse_stream, GLib, dbus

def scenario(size):
    cfg = dict(enable_test={'private_extensions'}, segment_size_tx_initial=1000)
    A, B, sa, sb = established(cfg, cfg)
    assert A.get_session_state() == 'established'
    first = bytes(range(250)) * (size // 250)
    second = b'second bundle'
    A.send_bundle_data(first); A.send_bundle_data(second)
    GLib.run_pending(5000)
    held = [bytes(B.recv_bundle_pop_data(x)) for x in B.recv_bundle_get_queue()]
    segs = [(m['flags'], len(m['data'])) for m in parse_stream(sa.wire)[0] if m['t'] == 'SEG']
    print('--- bundle of %d octets (segment size 1000), then a 13 octet bundle' % size)
    print('expected: B holds [%d, 13] octets' % size)
    print('observed: B holds %s ; segments written by A (flags, octets): %s' % ([len(h) for h in held], segs))
    print('          exceptions escaped from the event loop: %s' % sorted(set(GLib.ERRORS)))
    return held != [first, second]

ctl = scenario(1000)      # one segment: works
bad = scenario(2500)      # three segments: stuck after the first
if ctl: print('control failed'); sys.exit(2)
print('DEFECT SHOWN' if bad else 'ok')
sys.exit(1 if bad else 0)
