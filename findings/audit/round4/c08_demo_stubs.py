''' Stand-ins for the libraries which are not installed (dbus, gi/GLib, crcmod,
portion, yaml, certvalidator, psutil, macaddress, zeroconf, ifaddr), shared by
the three C08 demonstrations.

Call :func:`install` BEFORE importing anything of the project.  It also puts
``<worktree>/src`` at the front of ``sys.path`` (a foreign distribution called
"bp" is installed in the venv and must not win).

The stand-ins are deliberately small and do nothing clever:

 * ``dbus``: ``dbus.service.Object`` with ``method`` / ``signal`` decorators (a
   signal call is recorded in ``obj.emitted`` and handed to the handlers which
   were connected to it), value types as subclasses of the python types, and a
   bus connection on which the demo registers the "remote" objects it plays.
 * ``GLib``: idle / timeout sources are queued and run only when the demo
   cranks them with ``GLib.crank()``.
 * ``crcmod.predefined.mkPredefinedCrcFun`` for 'x-25' and 'crc-32c', table
   driven (the demos check against a separate bit-by-bit implementation in
   demo_common.py, not against this one).
 * ``portion``: half-open integer intervals, just what bp.app.fragment uses.
'''
import os
import sys
import types

HERE = os.path.dirname(os.path.abspath(__file__))


def _module(name, **attrs):
    mod = types.ModuleType(name)
    mod.__dict__.update(attrs)
    sys.modules[name] = mod
    parent, _, child = name.rpartition('.')
    if parent:
        setattr(sys.modules[parent], child, mod)
    return mod


# --------------------------------------------------------------------------
# dbus
# --------------------------------------------------------------------------

class DBusException(Exception):
    pass


class _Signature(str):
    pass


class Byte(int):
    pass


class ByteArray(bytes):
    pass


class String(str):
    def __new__(cls, val='', **_kw):
        return str.__new__(cls, val)


class ObjectPath(str):
    pass


class _Int(int):
    def __new__(cls, val=0, **_kw):
        return int.__new__(cls, val)


class Boolean(_Int):
    def __new__(cls, val=False, **_kw):
        return int.__new__(cls, bool(val))


class Int16(_Int):
    pass


class UInt16(_Int):
    pass


class Int32(_Int):
    pass


class UInt32(_Int):
    pass


class Int64(_Int):
    pass


class UInt64(_Int):
    pass


class Double(float):
    def __new__(cls, val=0.0, **_kw):
        return float.__new__(cls, val)


class Array(list):
    def __init__(self, iterable=(), signature=None, **_kw):
        list.__init__(self, iterable)
        self.signature = signature


class Dictionary(dict):
    def __init__(self, mapping=(), signature=None, **_kw):
        dict.__init__(self, mapping)
        self.signature = signature


class RemoteObject(object):
    ''' What ``bus.get_object()`` returns: either an object which the demo has
    registered (its public methods are the remote methods) or an empty one.
    Signals are delivered with :meth:`emit_signal`.
    '''

    def __init__(self, service, path, impl=None):
        self.service = service
        self.path = path
        self.impl = impl
        self.handlers = {}
        self.calls = []

    def connect_to_signal(self, name, handler, dbus_interface=None, **_kw):
        self.handlers.setdefault(name, []).append(handler)

    def emit_signal(self, name, *args):
        for handler in list(self.handlers.get(name, [])):
            handler(*args)

    def __getattr__(self, name):
        if name.startswith('__'):
            raise AttributeError(name)
        impl = self.__dict__.get('impl')
        if impl is not None and hasattr(impl, name):
            return getattr(impl, name)

        def call(*args, **kwargs):
            self.calls.append((name, args, kwargs))
            return None

        return call


class Interface(object):
    ''' A view of a remote object restricted to one interface. '''

    def __init__(self, obj, dbus_interface):
        self._obj = obj
        self.dbus_interface = dbus_interface

    def connect_to_signal(self, name, handler, **kwargs):
        return self._obj.connect_to_signal(name, handler, dbus_interface=self.dbus_interface)

    def __getattr__(self, name):
        return getattr(self._obj, name)


class _BusDaemon(object):
    ''' org.freedesktop.DBus as seen by the agent. '''

    def __init__(self, bus):
        self._bus = bus

    def NameHasOwner(self, name):
        return name in self._bus.owned_names


class BusConnection(object):
    ''' A bus with no daemon behind it. '''

    def __init__(self, address_or_type=None, **_kw):
        self.address = address_or_type
        self.objects = {}
        self.owned_names = set()
        self.exported = {}
        self.objects[('org.freedesktop.DBus', '/org/freedesktop/DBus')] = RemoteObject(
            'org.freedesktop.DBus', '/org/freedesktop/DBus', _BusDaemon(self))

    def register_remote(self, service, path, impl):
        ''' (demo side) make `impl` reachable as a remote object. '''
        obj = RemoteObject(service, path, impl)
        self.objects[(service, path)] = obj
        self.owned_names.add(service)
        return obj

    def get_object(self, service, path, **_kw):
        key = (str(service), str(path))
        if key not in self.objects:
            self.objects[key] = RemoteObject(*key)
        return self.objects[key]


class ServiceObject(object):
    ''' dbus.service.Object '''

    def __init__(self, conn=None, object_path=None, bus_name=None, **_kw):
        self._dbus_conn = conn
        self._dbus_path = object_path
        self.emitted = []
        self.signal_handlers = {}
        if conn is not None and object_path is not None:
            conn.exported[object_path] = self

    def remove_from_connection(self, *_args, **_kw):
        if self._dbus_conn is not None:
            self._dbus_conn.exported.pop(self._dbus_path, None)


def service_method(dbus_interface, in_signature=None, out_signature=None, **_kw):

    def deco(func):
        func._dbus_interface = dbus_interface
        func._dbus_in_signature = in_signature
        func._dbus_out_signature = out_signature
        return func

    return deco


def service_signal(dbus_interface, signature=None, **_kw):

    def deco(func):
        import functools

        @functools.wraps(func)
        def emit(self, *args):
            func(self, *args)
            if not hasattr(self, 'emitted'):
                self.emitted = []
            self.emitted.append((func.__name__, args))
            for handler in getattr(self, 'signal_handlers', {}).get(func.__name__, []):
                handler(*args)

        emit._dbus_interface = dbus_interface
        emit._dbus_signature = signature
        return emit

    return deco


class BusName(object):

    def __init__(self, name, bus=None, do_not_queue=False, **_kw):
        self._name = name
        self._bus = bus
        if bus is not None:
            bus.owned_names.add(name)

    def get_name(self):
        return self._name


class DBusGMainLoop(object):

    def __init__(self, set_as_default=False):
        pass


# --------------------------------------------------------------------------
# GLib
# --------------------------------------------------------------------------

class _GLib(object):
    ''' Sources are only collected; the demo runs them with crank(). '''

    PRIORITY_DEFAULT = 0
    PRIORITY_DEFAULT_IDLE = 200
    PRIORITY_HIGH = -100
    PRIORITY_LOW = 300
    IO_IN = 1
    IO_OUT = 4
    IO_PRI = 2
    IO_ERR = 8
    IO_HUP = 16
    IO_NVAL = 32

    class IOCondition(object):
        IN = 1
        OUT = 4
        PRI = 2
        ERR = 8
        HUP = 16
        NVAL = 32

    def __init__(self):
        self._next_id = 1
        self.idle = []
        self.timeouts = []
        self.io = []

    def _new_id(self):
        self._next_id += 1
        return self._next_id

    def idle_add(self, func, *args, **_kw):
        sid = self._new_id()
        self.idle.append((sid, func, args))
        return sid

    def timeout_add(self, interval, func, *args, **_kw):
        sid = self._new_id()
        self.timeouts.append((sid, interval, func, args))
        return sid

    def timeout_add_seconds(self, interval, func, *args, **_kw):
        return self.timeout_add(interval * 1000, func, *args)

    def io_add_watch(self, chan, *args, **_kw):
        sid = self._new_id()
        self.io.append((sid, chan, args))
        return sid

    def source_remove(self, sid):
        self.idle = [item for item in self.idle if item[0] != sid]
        self.timeouts = [item for item in self.timeouts if item[0] != sid]
        self.io = [item for item in self.io if item[0] != sid]
        return True

    def crank(self, limit=1000):
        ''' Run the idle sources until none is left.
        A source which returns true stays, as in GLib.
        :return: The number of callbacks made.
        '''
        count = 0
        while self.idle and count < limit:
            (sid, func, args) = self.idle.pop(0)
            count += 1
            if func(*args):
                self.idle.append((sid, func, args))
        return count

    class MainLoop(object):

        def run(self):
            raise RuntimeError('the demo cranks the sources by hand')

        def quit(self):
            pass


# --------------------------------------------------------------------------
# crcmod
# --------------------------------------------------------------------------

def _reflected_table(poly_reflected):
    table = []
    for byte in range(256):
        reg = byte
        for _bit in range(8):
            reg = (reg >> 1) ^ poly_reflected if reg & 1 else reg >> 1
        table.append(reg)
    return table


def _mk_crc(name):
    params = {
        # name: (reflected polynomial, width mask, init = xorout)
        'x-25': (0x8408, 0xFFFF),
        'crc-32c': (0x82F63B78, 0xFFFFFFFF),
    }
    key = name.lower().replace('_', '-')
    if key not in params:
        raise KeyError('Unknown CRC name {}'.format(name))
    (poly, mask) = params[key]
    table = _reflected_table(poly)

    def crcfun(data, crc=0):
        # as crcmod: `crc` is the (finalised) value of the data so far
        reg = (crc ^ mask) & mask
        for octet in bytes(data):
            reg = table[(reg ^ octet) & 0xFF] ^ (reg >> 8)
        return (reg ^ mask) & mask

    return crcfun


# --------------------------------------------------------------------------
# portion
# --------------------------------------------------------------------------

class Interval(object):
    ''' A union of half-open integer ranges [lo, hi). '''

    def __init__(self, parts=()):
        merged = []
        for (low, high) in sorted(part for part in parts if part[0] < part[1]):
            if merged and low <= merged[-1][1]:
                merged[-1] = (merged[-1][0], max(merged[-1][1], high))
            else:
                merged.append((low, high))
        self._parts = tuple(merged)

    def __or__(self, other):
        return Interval(self._parts + other._parts)

    def __eq__(self, other):
        return isinstance(other, Interval) and self._parts == other._parts

    def __hash__(self):
        return hash(self._parts)

    @property
    def empty(self):
        return not self._parts

    def __repr__(self):
        if not self._parts:
            return '()'
        return ' | '.join('[{},{})'.format(*part) for part in self._parts)


def _closedopen(low, high):
    return Interval([(low, high)])


def _empty():
    return Interval()


# --------------------------------------------------------------------------

def _unavailable(name):

    class Unavailable(object):

        def __init__(self, *_args, **_kw):
            raise RuntimeError('{} is a stand-in and cannot be used'.format(name))

    Unavailable.__name__ = name
    return Unavailable


GLib = _GLib()


def install(worktree=None):
    ''' Register the stand-ins and make the project importable.

    :param worktree: The root of the worktree, by default the current
        directory (the demos are run from there).
    '''
    if worktree is None:
        worktree = os.getcwd()
    src = os.path.join(os.path.abspath(worktree), 'src')
    if not os.path.isdir(os.path.join(src, 'bp')):
        raise RuntimeError('Run the demo from the worktree root (no src/bp under {})'.format(worktree))
    if src in sys.path:
        sys.path.remove(src)
    sys.path.insert(0, src)
    # a foreign "bp" may have been imported already
    for name in list(sys.modules):
        if name == 'bp' or name.startswith('bp.'):
            del sys.modules[name]

    if 'dbus' not in sys.modules:
        _module(
            'dbus',
            DBusException=DBusException, Interface=Interface,
            Byte=Byte, ByteArray=ByteArray, String=String, ObjectPath=ObjectPath,
            Boolean=Boolean, Int16=Int16, UInt16=UInt16, Int32=Int32, UInt32=UInt32,
            Int64=Int64, UInt64=UInt64, Double=Double, Array=Array, Dictionary=Dictionary,
            Signature=_Signature,
        )
        _module('dbus.exceptions', DBusException=DBusException)
        _module('dbus.bus', BusConnection=BusConnection, BUS_SESSION=0, BUS_SYSTEM=1, BUS_STARTER=2)
        _module('dbus.service', Object=ServiceObject, method=service_method,
                signal=service_signal, BusName=BusName)
        _module('dbus.mainloop')
        _module('dbus.mainloop.glib', DBusGMainLoop=DBusGMainLoop)

    if 'gi' not in sys.modules:
        _module('gi', require_version=lambda *_a, **_k: None)
        _module('gi.repository', GLib=GLib)
        sys.modules['gi.repository.GLib'] = GLib

    if 'crcmod' not in sys.modules:
        _module('crcmod')
        _module('crcmod.predefined', mkPredefinedCrcFun=_mk_crc, mkCrcFun=_mk_crc)

    if 'portion' not in sys.modules:
        _module('portion', Interval=Interval, closedopen=_closedopen, empty=_empty)

    if 'yaml' not in sys.modules:
        def safe_load(_stream):
            raise RuntimeError('yaml is a stand-in: configure the agent through bp.config.Config')
        _module('yaml', safe_load=safe_load)

    # certvalidator is installed but cannot load libcrypto here
    _module('certvalidator',
            CertificateValidator=_unavailable('CertificateValidator'),
            ValidationContext=_unavailable('ValidationContext'))

    if 'psutil' not in sys.modules:
        _module('psutil', net_if_addrs=lambda: {}, AF_LINK=17)

    if 'macaddress' not in sys.modules:
        _module('macaddress', HWAddress=_unavailable('HWAddress'), EUI48=_unavailable('EUI48'))

    if 'ifaddr' not in sys.modules:
        _module('ifaddr', get_adapters=lambda: [])

    if 'zeroconf' not in sys.modules:

        class Zeroconf(object):
            ''' Never asked to do anything unless the zeroconf app is configured. '''

            def __init__(self, *_args, **_kw):
                pass

            def close(self):
                pass

        _module('zeroconf', Zeroconf=Zeroconf,
                ServiceInfo=_unavailable('ServiceInfo'),
                ServiceBrowser=_unavailable('ServiceBrowser'),
                ServiceStateChange=_unavailable('ServiceStateChange'))

    return GLib
