''' NOT one of the three seeded variants: an acceptance of a corrupted bundle
seen on the UNMODIFIED worktree while demo B was being written (which is why
the demos avoid node-only dtn EIDs such as dtn://me/).

Primary block with CRC-32C, destination dtn://me/ encoded 82 01 65 "//me/".
A burst of 17 bits (only its two end bits flipped: 82->83 and 65->64) turns the
EID into the 3-item array [1, "//me", -16].  EidField.m2i reads items 0 and 1
only ("dtn://me"), EidField.i2m appends the "/" to a node-only SSP, and the
block re-encodes to exactly the octets the sender protected: CRC matches.

Run from the worktree root; prints what happened, exit 1 if accepted.
'''
import sys
import demo_common as dc

dc.quiet()
primary = dc.encode_primary(0x00, 2, dc.dtn_eid('dtn://me/'), dc.dtn_eid('dtn://peer/adm'), dc.dtn_eid('dtn:none'),
                            (700000000456, 0), 3600000)
payload = dc.encode_canonical(1, 1, 0, 2, b'x')
good = dc.encode_bundle([primary, payload])
assert good[5] == 0x82 and good[7] == 0x65
bad = bytearray(good)
bad[5] ^= 0x01
bad[7] ^= 0x01
node = dc.Node('dtn://me/')
err = node.receive(bytes(bad))
print('intact   :', good.hex())
print('corrupted:', bytes(bad).hex())
print('error', repr(err), 'seen', node.seen)
sys.exit(1 if node.seen else 0)
