import sys
sys.path.insert(0,'/tmp')
exec(open('/verif/findings/audit/crc_bursts/bpsec_type_alterations.py').read().split("for sec_type in ('bib', 'bcb'):")[0].replace("HERE = os.path.dirname(os.path.abspath(__file__))","HERE = '/verif/findings/audit/crc_bursts'"))
import io
for sec_type in ('bib','bcb'):
    data = make(sec_type)
    blocks = cbor2.loads(data)
    for (bi, blk) in enumerate(blocks):
        if blk[0] not in (11, 12): continue
        buf = io.BytesIO(blk[4]); dec = cbor2.CBORDecoder(buf); items=[]
        while buf.tell() < len(buf.getvalue()): items.append(dec.decode())
        mi = copy.deepcopy(items); mi[5][0][0][1] = mi[5][0][0][1] + b'\x00'
        mut = copy.deepcopy(blocks); mut[bi][4] = b''.join(cbor2.dumps(x) for x in mi)
        enc = b'\x9f' + b''.join(cbor2.dumps(x) for x in mut) + b'\xff'
        print(sec_type, 'result value with a trailing octet verifies:', verify(enc, sec_type))
