''' What the three C08 demonstrations share: a node built from the REAL
bp.agent.Agent with a played UDPCL service behind its REAL bp.cla.UdpclAdaptor,
and an INDEPENDENT reading of RFC 9171 block CRCs (bit-by-bit CRC, working on
the octets of the encoded bundle, nothing of the project involved).
'''
import io
import logging
import re
import struct
import sys

import cbor2

import demo_stubs

GLIB = demo_stubs.install()

# the project, real code
from bp.config import Config, RxRouteItem, TxRouteItem  # noqa: E402
import bp.agent  # noqa: E402
import bp.app  # noqa: E402,F401 registers the applications as bp.cmd does


def quiet():
    logging.basicConfig(level=logging.CRITICAL, stream=sys.stderr)
    logging.getLogger().setLevel(logging.CRITICAL)


# --------------------------------------------------------------------------
# independent CRC (RFC 9171 section 4.2.1), bit by bit
# --------------------------------------------------------------------------

def _crc_reflected(data, poly, width):
    mask = (1 << width) - 1
    reg = mask
    for octet in data:
        reg ^= octet
        for _bit in range(8):
            if reg & 1:
                reg = (reg >> 1) ^ poly
            else:
                reg >>= 1
    return (reg ^ mask) & mask


def crc16_x25(data):
    return _crc_reflected(data, 0x8408, 16)


def crc32c(data):
    return _crc_reflected(data, 0x82F63B78, 32)


assert crc16_x25(b'123456789') == 0x906E
assert crc32c(b'123456789') == 0xE3069283

CRC_WIDTH = {1: 2, 2: 4}


def crc_field(crc_type, block_octets_with_zero_crc):
    if crc_type == 1:
        return struct.pack('>H', crc16_x25(block_octets_with_zero_crc))
    if crc_type == 2:
        return struct.pack('>L', crc32c(block_octets_with_zero_crc))
    raise ValueError(crc_type)


# --------------------------------------------------------------------------
# independent bundle writer / reader
# --------------------------------------------------------------------------

def encode_block(items, crc_type):
    ''' Encode one block array, appending the CRC field when the type asks. '''
    items = list(items)
    if crc_type:
        width = CRC_WIDTH[crc_type]
        zeroed = cbor2.dumps(items + [bytes(width)])
        return zeroed[:-width] + crc_field(crc_type, zeroed)
    return cbor2.dumps(items)


def encode_primary(flags, crc_type, dest, src, rpt, ts, lifetime, frag=None):
    items = [7, flags, crc_type, dest, src, rpt, list(ts), lifetime]
    if frag is not None:
        items += list(frag)
    return encode_block(items, crc_type)


def encode_canonical(type_code, block_num, flags, crc_type, btsd):
    return encode_block([type_code, block_num, flags, crc_type, bytes(btsd)], crc_type)


def encode_bundle(blocks):
    return b'\x9f' + b''.join(blocks) + b'\xff'


def dtn_eid(text):
    ''' "dtn://node/svc" -> [1, "//node/svc"], "dtn:none" -> [1, 0] '''
    if text == 'dtn:none':
        return [1, 0]
    assert text.startswith('dtn:')
    return [1, text[4:]]


def split_bundle(data):
    ''' The octets of each block of an encoded bundle.
    :return: list of (offset, octets, decoded array)
    '''
    if data[:1] != b'\x9f' or data[-1:] != b'\xff':
        raise ValueError('not an indefinite-length array')
    body = data[1:-1]
    out = []
    with io.BytesIO(body) as buf:
        dec = cbor2.CBORDecoder(buf)
        while buf.tell() < len(body):
            start = buf.tell()
            item = dec.decode()
            out.append((1 + start, body[start:buf.tell()], item))
    return out


def audit_bundle(data):
    ''' Check every block of an encoded bundle as a receiver written from the
    RFC would.

    :return: list of human readable faults, empty when all is well.
    '''
    faults = []
    for (ix, (_off, octets, item)) in enumerate(split_bundle(data)):
        name = 'primary block' if ix == 0 else 'block number {}'.format(item[1] if len(item) > 1 else '?')
        if not isinstance(item, list):
            faults.append('{}: not an array'.format(name))
            continue
        if ix == 0:
            crc_type = item[2]
            base = 10 if item[1] & 0x01 else 8
        else:
            crc_type = item[3]
            base = 5
        if crc_type == 0:
            if len(item) != base:
                faults.append('{}: CRC type 0 but {} items instead of {}'.format(name, len(item), base))
            continue
        if crc_type not in CRC_WIDTH:
            faults.append('{}: CRC type {}'.format(name, crc_type))
            continue
        width = CRC_WIDTH[crc_type]
        if len(item) != base + 1:
            faults.append('{}: CRC type {} but {} items instead of {}'.format(name, crc_type, len(item), base + 1))
            continue
        got = item[-1]
        if not isinstance(got, bytes) or len(got) != width or octets[-width:] != got:
            faults.append('{}: CRC field {!r} is not a {}-octet byte string at the end of the block'.format(name, got, width))
            continue
        want = crc_field(crc_type, octets[:-width] + bytes(width))
        if got != want:
            faults.append('{}: CRC type {} field is {} but the block has {}'.format(name, crc_type, got.hex(), want.hex()))
    return faults


def corruptions(data, offset, length, crc_type, burst_lengths=(2, 3, 4, 5, 8, 9, 12, 16, 17, 24, 32)):
    ''' Corrupted copies of an encoded bundle: every single-bit flip inside the
    block at [offset, offset+length) and bursts (first and last bit flipped,
    between them all or none) no longer than the CRC width of the block.

    :return: iterator of (description, corrupted octets)
    '''
    width = 8 * CRC_WIDTH[crc_type]
    nbits = 8 * length

    def apply(start, mask_bits):
        bad = bytearray(data)
        for (ix, flip) in enumerate(mask_bits):
            if flip:
                bit = start + ix
                bad[offset + bit // 8] ^= 0x80 >> (bit % 8)
        return bytes(bad)

    for start in range(nbits):
        pos = offset + start // 8
        yield ('octet {} bit {} (0x{:02x})'.format(pos, 7 - start % 8, data[pos]), apply(start, [1]))
    for blen in burst_lengths:
        if blen > width:
            continue
        for start in range(nbits - blen + 1):
            pos = offset + start // 8
            for (kind, inner) in (('solid', 1), ('ends', 0)):
                if blen == 2 and not inner:
                    continue
                mask = [1] + [inner] * (blen - 2) + [1]
                yield ('{} burst of {} bits from octet {} bit {}'.format(kind, blen, pos, 7 - start % 8),
                       apply(start, mask))


# --------------------------------------------------------------------------
# a node: real agent, real UDPCL adaptor, played UDPCL service
# --------------------------------------------------------------------------

class PlayedUdpcl(object):
    ''' The remote org.ietf.dtn.udpcl.Agent object as far as bp.cla uses it. '''

    def __init__(self):
        self.sent = []
        self._rx = {}
        self._next_bid = 0
        self.remote = None

    # remote methods
    def send_bundle_data(self, data, tx_params):
        self.sent.append(bytes(data))
        return 'tx{}'.format(len(self.sent))

    def recv_bundle_pop_data(self, bid):
        return demo_stubs.Array([demo_stubs.Byte(octet) for octet in self._rx.pop(bid)], signature='y')

    # demo side
    def deliver(self, data):
        ''' A bundle arrives from the network: the service signals it and the
        adaptor fetches the octets, as with the real service. '''
        self._next_bid += 1
        bid = 'rx{}'.format(self._next_bid)
        self._rx[bid] = bytes(data)
        self.remote.emit_signal('recv_bundle_finished', bid, len(data), {})


class Node(object):

    SERVICE = 'org.ietf.dtn.demo.udpcl'

    def __init__(self, node_id, deliver=(), forward=(), mtu=None):
        ''' :param deliver: regex patterns of destinations delivered here
            :param forward: regex patterns of destinations forwarded (and
                routed out through the UDPCL)
        '''
        self.config = Config()
        self.config.node_id = node_id
        self.config._bus_conn = demo_stubs.BusConnection('demo')
        for pat in deliver:
            self.config.rx_route_table.append(RxRouteItem(eid_pattern=re.compile(pat), action='deliver'))
        for pat in forward:
            self.config.rx_route_table.append(RxRouteItem(eid_pattern=re.compile(pat), action='forward'))
        self.config.tx_route_table.append(TxRouteItem(
            eid_pattern=re.compile(r'.*'), next_nodeid='dtn://next/', cl_type='udpcl', mtu=mtu,
            raw_config=dict(address='192.0.2.1', port=4556)))

        self.udpcl = PlayedUdpcl()
        self.udpcl.remote = self.config._bus_conn.register_remote(
            self.SERVICE, '/org/ietf/dtn/udpcl/Agent', self.udpcl)

        self.agent = bp.agent.Agent(self.config)
        self.agent.cl_attach('udpcl', self.SERVICE)

    def receive(self, data):
        ''' Hand an encoded bundle to the node as the CL does, then let the
        idle sources (forwarding, reports) run.
        :return: The exception which escaped, or None
        '''
        err = None
        try:
            self.udpcl.deliver(data)
        except Exception as exc:  # the bus would log and drop it
            err = exc
        GLIB.crank()
        return err

    def crank(self):
        return GLIB.crank()

    @property
    def seen(self):
        return set(self.agent._seen_bundle_ident)

    @property
    def sent(self):
        return list(self.udpcl.sent)
