#!/bin/sh
# the 17-bit burst of the C08 round-4 aside (exit 1 = accepted); the demo wants to run from a tree root with src/
cd "$(dirname "$0")"; here=$(pwd); tmp=$(mktemp -d); ln -s ${REPO:-/repo}/src $tmp/src
cp extra_clean_tree_finding.py $tmp/; cp c08_demo_common.py $tmp/demo_common.py; cp c08_demo_stubs.py $tmp/demo_stubs.py
(cd $tmp && /venv/bin/python extra_clean_tree_finding.py); rc=$?; rm -rf $tmp; exit $rc
