import sys
import os; HERE = os.path.dirname(os.path.abspath(__file__)); sys.path.insert(0, os.path.join(HERE, '..', '..')); sys.path.insert(0, os.path.join(HERE, '..', '..', 'demos'))
from bp_demos import *
from bp_demos import _tx
import bp.app.admin as admin
def run():
    a, cl = mkagent(rx=[], tx=_tx())
    flags = int(PrimaryBlock.Flag.PAYLOAD_ADMIN | PrimaryBlock.Flag.REQ_DELIVERY_REPORT | PrimaryBlock.Flag.REQ_DELETION_REPORT)
    rec = cbor2.dumps([int(admin.RecordType.ACME), {int(admin.AcmeKey.ID_CHAL): b'\x01\x02', int(admin.AcmeKey.TOKEN_BUNDLE): b'tok', int(admin.AcmeKey.HASH_ALGS): [-16]}])
    data = mkbundle(dst='dtn://me/', src='dtn://src/', report_to='dtn://src/', flags=flags | int(PrimaryBlock.Flag.USER_APP_ACK), payload=rec)
    ctr = BundleContainer(Bundle(data))
    a.recv_bundle(ctr)
    for _ in range(50):
        if not GLib.run_pending(): break
    print('actions on record:', sorted(ctr.actions))
    for d in cl.sent:
        b = Bundle(d)
        if b.primary.bundle_flags & PrimaryBlock.Flag.PAYLOAD_ADMIN:
            print('report payload:', cbor2.loads(b.blocks[-1].btsd))
run()
