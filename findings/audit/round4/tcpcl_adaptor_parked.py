import sys, os, logging
sys.path.insert(0, '/verif/findings'); sys.path.insert(0, '/verif/findings/demos')
from bp_demos import *
import bp.cla as cla
class Conn:
    def __init__(self): self.sent = []
    def send_bundle_data(self, data): self.sent.append(bytes(data))
class AgentObj:
    def __init__(self): self.connects = []
    def connect(self, a, p): self.connects.append((a, p))
def mk():
    ad = cla.TcpclAdaptor.__new__(cla.TcpclAdaptor)
    ad._logger = logging.getLogger('x'); ad._cl_conn_nodeid = {}; ad._sess_wait = {}; ad.agent_obj = AgentObj()
    return ad
rc = 0
ad = mk()
sender = ad.send_bundle_func({'next_nodeid': 'dtn://peer/'})     # a reverse route: no address
try:
    sender(b'bundle-1'); print('sender returned'); failed = False
except KeyError as e:
    print('sender raised KeyError', e, '(the forwarder reports the bundle deleted, NO_ROUTE)'); failed = True
c = cla.TcpclConnection(); c.conn_obj = Conn(); c.nodeid = 'dtn://peer/'
ad._cl_conn_nodeid[c.nodeid] = c
ad._conn_ready(c, c.nodeid)
print('sent when the session came up:', c.conn_obj.sent)
if failed and c.conn_obj.sent:
    print('DEFECT: reported as failed, transmitted all the same'); rc = 1
ad._conn_ready(c, c.nodeid)
if len(c.conn_obj.sent) > len(set(c.conn_obj.sent)):
    print('DEFECT: the parked data are sent again on the next session'); rc = 1
# control: parked data with an address are sent once
ad = mk(); sender = ad.send_bundle_func({'next_nodeid': 'dtn://peer/', 'address': '10.0.0.1'}); sender(b'bundle-2')
c = cla.TcpclConnection(); c.conn_obj = Conn(); c.nodeid = 'dtn://peer/'; ad._cl_conn_nodeid[c.nodeid] = c
ad._conn_ready(c, c.nodeid); ad._conn_ready(c, c.nodeid)
print('control sent:', c.conn_obj.sent, 'connects:', ad.agent_obj.connects)
if c.conn_obj.sent != [b'bundle-2']: rc = 1
sys.exit(rc)
