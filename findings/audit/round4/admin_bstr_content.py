import sys, os
sys.path.insert(0, '/verif/findings'); sys.path.insert(0, '/verif/findings/demos')
from bp_demos import *
from bp_demos import _fwd, _tx
def run():
    rec = cbor2.dumps([65536, b'\x05'])
    flags = int(PrimaryBlock.Flag.PAYLOAD_ADMIN)
    data = mkbundle(dst='dtn://far/x', flags=flags, payload=rec)
    a, cl = _fwd(data)
    out = [Bundle(d) for d in cl.sent]
    if not out:
        print('nothing forwarded'); return 2
    pl = bytes(cbor2.loads(cl.sent[0])[-1][4])
    print('payload in :', rec.hex()); print('payload out:', pl.hex())
    return 0 if pl == rec else 1
sys.exit(run())
