''' C08 / C03 / C16 (left open after round 5, repaired in round 6): a CBOR null in the place of an endpoint ID.

EidField.m2i(None) gave None (the in-program "no value"), EidField.i2m(None) gives [1, 0] (dtn:none).  A primary block in
which the three octets 82 01 00 (dtn:none) were replaced by f6 (null) therefore decoded, re-encoded to the octets the
sender protected, and passed check_crc() -- and the AAD of a BIB/BCB (which re-encodes the primary block) as well --
although other octets arrived.  The deterministic-encoding check of Bundle.dissect does not see it: null IS the
deterministic encoding of null.

exit 0: the altered bundle is refused (or its CRC check fails); exit 1: it decodes and passes the CRC check. '''
import sys, os
sys.path.insert(0, os.path.join(os.path.dirname(os.path.abspath(__file__)), '..', '..'))
from bp_harness import *
data = mkbundle(dst='dtn://me/svc', payload=b'hello', dtntime=700000000456, report_to='dtn:none')
i = data.find(bytes.fromhex('820100'))
assert i > 0 and data.count(bytes.fromhex('820100')) == 1, data.hex()
bad = data[:i] + b'\xf6' + data[i + 3:]
assert Bundle(data).check_all_crc() == set()
try:
    b = Bundle(bad)
    res = b.check_all_crc()
    print('decoded; failed CRC blocks:', res, ' report_to', b.primary.report_to)
    sys.exit(1 if not res else 0)
except Exception as e:
    print('refused:', type(e).__name__, e)
    sys.exit(0)
