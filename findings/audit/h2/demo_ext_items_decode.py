#!/usr/bin/env python
"""C07: "Every message the implementation encodes is decoded to the same fields by an
independent RFC 9174 decoder, and vice versa" (quantified over extension-item lists).

An extension item is  flags(U8) type(U16) length(U16) value(length octets).
tcpcl.messages.TlvHead never limits its payload to `length` octets (no
extract_padding), so the first item of a list takes the rest of the list as its
value/padding, its own length check then fails, scapy's PacketListField swallows
that error, and the whole list comes out as ONE scapy Raw blob.  Any list with two
or more items is affected - including the two items the implementation itself
sends in every START segment when the 'private_extensions' test switch is on.

exit 1 = defect shown, 0 = not shown
"""
import sys, struct
from tcpcl_harness import *
from tcpcl import extend


def rfc_ext_items(raw):
    ''' independent decoder for an extension item list '''
    items = []
    while raw:
        flags, typ, ln = struct.unpack('!BHH', raw[:5])
        items.append((flags, typ, raw[5:5 + ln])); raw = raw[5 + ln:]
    return items


def impl_items(lst):
    out = []
    for it in lst:
        if isinstance(it, messages.TlvHead):
            out.append((int(it.flags), it.type, bytes(it.payload)))
        else:
            out.append(('NOT AN ITEM: ' + type(it).__name__, bytes(it)))
    return out


bad = False

# 1. two real endpoints, sender with private_extensions: what reaches the receiver's handler
A, B, sa, sb = established(enable_test={'private_extensions'})
seen = []
orig = B.recv_xfer_data
B.recv_xfer_data = lambda transfer_id, flags, data, ext_items: (seen.append(list(ext_items)), orig(transfer_id, flags, data, ext_items))[1]
wire = []
osend = sa.send
sa.send = lambda d: (wire.append(bytes(d)), osend(d))[1]
A.send_bundle_data(b'hello')
GLib.run_pending()
seg = b''.join(wire)
ext_size = struct.unpack('!I', seg[10:14])[0]
ref = rfc_ext_items(seg[14:14 + ext_size])
got = impl_items(seen[0])
print('START segment sent by a real endpoint, extension items per RFC 9174 decoder:')
for r in ref:
    print('     flags=%d type=0x%04x value=%s' % (r[0], r[1], r[2].hex()))
print('  items handed to the receiving endpoint\'s recv_xfer_data():')
for g in got:
    print('     %r' % (g,))
if got != ref:
    bad = True

# 2. SESS_INIT from an independent encoder with two items of unknown type
ext = struct.pack('!BHH', 1, 0x0010, 2) + b'ab' + struct.pack('!BHH', 0, 0x0011, 1) + b'c'
nodeid = b'dtn://peer/'
raw = b'\x07' + struct.pack('!HQQH', 0, 1, 1, len(nodeid)) + nodeid + struct.pack('!I', len(ext)) + ext
pkt = messages.MessageHead(raw)
ref2 = rfc_ext_items(ext)
got2 = impl_items(pkt.payload.ext_items)
print('SESS_INIT with session extension items', ref2)
print('  implementation decodes ext_items to', got2)
if got2 != ref2:
    bad = True

print()
print('expected: the same list of (flags, type, value) items from both decoders')
if bad:
    print('observed: lists of two or more items collapse into a single Raw blob; flags (CRITICAL), types and values are not available')
    print('DEFECT SHOWN')
    sys.exit(1)
print('observed: as expected')
sys.exit(0)
