#!/usr/bin/env python
"""C17: a well-formed message in the wrong state must be answered with MSG_REJECT,
termination or closure and must leave the endpoint's state and its own queued
transfers alone.

SESS_INIT is the one message type recv_message() handles without any state
guard.  Sent a second time - in an established session, or after SESS_TERM - it is
accepted as a fresh negotiation.

exit 1 = defect shown, 0 = not shown
"""
import sys
from tcpcl_harness import *


def M(p):
    return bytes(messages.MessageHead() / p)


def detach(H):
    for i, v in list(GLib.SOURCES.items()):
        if getattr(v[1], '__self__', None) is H:
            GLib.SOURCES.pop(i)


def wire_msgs(raw):
    out = []
    while raw:
        p = messages.MessageHead(raw); d = bytes(p)
        out.append(type(p.payload).__name__); raw = raw[len(d):]
    return out


shown = []

# (a) established session, own transfer under way: second SESS_INIT renegotiates and wrecks the transfer
A, B, sa, sb = established(segment_size_tx_initial=100)
detach(A); sa.rx = b''                     # from here on we play A by hand
before = dict(B._sess_parameters)
tid = B.send_bundle_data(b'x' * 1000)      # ten segments of 100 octets
GLib.run_pending(6)                        # ... of which a few have gone out
inject(sb, M(messages.SessionInit(nodeid_data='dtn://somebody-else/', segment_mru=0)))
GLib.run_pending()
segs = []; answer = []
raw = bytes(sa.rx)
while raw:
    p = messages.MessageHead(raw); d = bytes(p); raw = raw[len(d):]
    if isinstance(p.payload, messages.TransferSegment):
        segs.append((int(p.payload.flags), len(p.payload.getfieldval('data'))))
    else:
        answer.append(type(p.payload).__name__)
print('(a) second SESS_INIT in state established, own transfer %s (1000 octets) in progress' % tid)
print('    answered with: %s   (expected MSG_REJECT / SESS_TERM / closure)' % answer)
print('    peer_nodeid %r -> %r, peer_segment_mru %r -> %r' % (
    before['peer_nodeid'], B._sess_parameters['peer_nodeid'],
    before['peer_segment_mru'], B._sess_parameters['peer_segment_mru']))
print('    own transfer: segments on the wire (flags, data length) = %s' % segs)
print('    work still scheduled at the sender: %s' % [v[1].__name__ for v in GLib.SOURCES.values() if v[0] == 'idle'])
if 'RejectMsg' not in answer and 'SessionTerm' not in answer and not sb.closed:
    shown.append('second SESS_INIT accepted in established state, peer node id and segment MRU replaced')
if sum(n for _, n in segs) != 1000:
    shown.append('own transfer stalled for good (%d of 1000 octets sent, nothing scheduled)' % sum(n for _, n in segs))

# (b) after SESS_TERM: the session state goes back to "established"
A, B, sa, sb = established()
detach(A); sa.rx = b''
B.send_bundle_data(b'y' * 10)              # an unacknowledged transfer keeps B from closing
GLib.run_pending()
inject(sb, M(messages.SessionTerm(reason=0)))
GLib.run_pending()
s1 = B.get_session_state(); sa.rx = b''
inject(sb, M(messages.SessionInit(nodeid_data='dtn://a/')))
GLib.run_pending()
s2 = B.get_session_state()
print('(b) SESS_INIT after SESS_TERM: state %r -> %r (in_term=%s), answered with %s' % (s1, s2, B._in_term, wire_msgs(bytes(sa.rx))))
if s1 == 'ending' and s2 == 'established':
    shown.append('terminating session reports "established" again and sends SESS_INIT after SESS_TERM')

print('escaped exceptions:', GLib.ERRORS)
print()
print('expected: MSG_REJECT (or termination/closure); negotiated parameters, session state and own transfers unchanged')
if shown:
    for s in shown:
        print('observed:', s)
    print('DEFECT SHOWN')
    sys.exit(1)
print('observed: as expected')
sys.exit(0)
