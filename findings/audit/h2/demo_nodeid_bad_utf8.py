#!/usr/bin/env python
"""C17 ("its event callbacks never escape with an exception") / C07 (a framed message
is acted on).  BORDERLINE: the message below is perfectly framed, but its Node ID
octets are not UTF-8, which RFC 9174 requires of the sender.

A SESS_INIT whose node id data is ff fe: recv_raw() frames it, removes it from the
buffer and hands it to recv_message().  The passive side first answers with its
own SESS_INIT and sets _in_sess, then merge_session_params() does
str(self._sessinit_peer.nodeid_data), whose i2h() decodes UTF-8 and raises
UnicodeDecodeError out of the io callback.  No MSG_REJECT, no SESS_TERM, no
closure; _in_sess is True while the state stays "session-negotiating" and no
parameters or timers are set.  The hand-cranked loop (like PyGObject for a
callback that raised) drops the io watch, so the connection is never read again.

exit 1 = defect shown, 0 = not shown
"""
import sys, struct
from tcpcl_harness import *

GLib.SOURCES.clear(); GLib.ERRORS.clear()
peer, sock = pair()
H = mk(sock, True); H.start(); GLib.run_pending()
nodeid = b'\xff\xfe'
init = b'\x07' + struct.pack('!HQQH', 0, 2**64 - 1, 2**64 - 1, len(nodeid)) + nodeid + struct.pack('!I', 0)
inject(sock, b'dtn!\x04\x00' + init)
GLib.run_pending()
answer = bytes(peer.rx)[6:]
print('state:', H._state, ' _in_sess:', H._in_sess, ' parameters:', H._sess_parameters, ' closed:', sock.closed, ' answer after own contact header:', answer.hex() or '(nothing)')
print('receive buffer:', H.recv_buffer_used(), 'octets;  rx io watch still registered:',
      any(v[0] == 'io' and v[3][1] == GLib.IO_IN for v in GLib.SOURCES.values()))
print('exceptions escaping the io callback:', GLib.ERRORS)
print()
print('expected: MSG_REJECT, SESS_TERM or closure; no exception out of the callback')
if GLib.ERRORS:
    print('observed: %s escaped, message consumed and dropped, endpoint left half-negotiated and deaf' % GLib.ERRORS[0][1])
    print('DEFECT SHOWN')
    sys.exit(1)
print('observed: as expected')
sys.exit(0)
