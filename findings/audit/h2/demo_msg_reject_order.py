#!/usr/bin/env python
"""C07: "Every message the implementation encodes is decoded to the same fields by an
independent RFC 9174 decoder, and vice versa."

RFC 9174 section 5.1.2 (MSG_REJECT): after the message header octet 0x06 come
    Reason Code (U8), then Rejected Message Header (U8)
tcpcl.messages.RejectMsg has the two fields the other way round
(rej_msg_id first, reason second), on encode and on decode.

exit 1 = defect shown, 0 = not shown
"""
import sys, struct
from tcpcl_harness import *

REASON = {1: 'Message Type Unknown', 2: 'Message Unsupported', 3: 'Message Unexpected'}
MSGTYPE = {1: 'XFER_SEGMENT', 2: 'XFER_ACK', 3: 'XFER_REFUSE', 4: 'KEEPALIVE', 5: 'SESS_TERM', 6: 'MSG_REJECT', 7: 'SESS_INIT'}


def rfc_decode_reject(raw):
    ''' independent decoder, straight from the RFC 9174 figure '''
    head, reason, rejected = struct.unpack('!BBB', raw)
    assert head == 6
    return dict(reason=reason, rejected_header=rejected)


def rfc_encode_reject(reason, rejected):
    return struct.pack('!BBB', 6, reason, rejected)


# 1. what a real endpoint puts on the wire when it rejects an XFER_ACK for an unknown transfer
A, B, sa, sb = established()
for i, v in list(GLib.SOURCES.items()):
    if getattr(v[1], '__self__', None) is A:
        GLib.SOURCES.pop(i)
sa.rx = b''
inject(sb, bytes(messages.MessageHead() / messages.TransferAck(transfer_id=77, flags=1, length=5)))
GLib.run_pending()
wire = bytes(sa.rx)
got = rfc_decode_reject(wire)
print('endpoint rejects an XFER_ACK (type 2) as "unexpected" (reason 3); octets on the wire:', wire.hex())
print('   RFC 9174 decoder reads: reason=%d (%s), rejected header=%d (%s)' % (
    got['reason'], REASON.get(got['reason']), got['rejected_header'], MSGTYPE.get(got['rejected_header'])))
bad1 = got != dict(reason=3, rejected_header=2)

# 2. the other direction
raw = rfc_encode_reject(reason=1, rejected=5)     # "type unknown" about a message with header 5
pkt = messages.MessageHead(raw)
print('RFC 9174 encoding of MSG_REJECT(reason=1, rejected header=5):', raw.hex())
print('   implementation decodes: reason=%d, rej_msg_id=%d' % (pkt.payload.reason, pkt.payload.rej_msg_id))
bad2 = (pkt.payload.reason, pkt.payload.rej_msg_id) != (1, 5)

print()
print('expected: reason=3/header=2 and reason=1/header=5 respectively')
if bad1 or bad2:
    print('observed: the two fields are exchanged in both directions')
    print('DEFECT SHOWN')
    sys.exit(1)
print('observed: as expected')
sys.exit(0)
