#!/usr/bin/env python
"""C07 (idle indication / "never by where the network splits it"):
whether a terminating session is closed depends on how the peer's SESS_TERM
reply and the octets after it are cut into reads.

Two real endpoints.  A calls terminate().  B replies with SESS_TERM and, a bit
later, its keepalive timer sends a KEEPALIVE.  Octet stream seen by A in both
runs: SESS_TERM(reply) KEEPALIVE.

  run 1: A reads the reply, then (second read) the KEEPALIVE
  run 2: TCP delivers both in one read

exit 1 = defect shown, 0 = not shown
"""
import sys
from tcpcl_harness import *


def sources_of(H, kind):
    return [(i, v) for i, v in GLib.SOURCES.items() if v[0] == kind and getattr(v[1], '__self__', None) is H]


def scenario(coalesce):
    A, B, sa, sb = established(keepalive_time=30)
    # hold back A's reading (the octets wait in the "kernel")
    held = sources_of(A, 'io')
    rx_watch = [(i, v) for i, v in held if v[3][1] == GLib.IO_IN]
    for i, _ in rx_watch:
        GLib.SOURCES.pop(i)
    A.terminate(0)
    GLib.run_pending()                    # A's SESS_TERM -> B, B's reply -> A's socket
    if not coalesce:
        for i, v in rx_watch:             # A reads the reply on its own
            GLib.SOURCES[i] = v
        GLib.run_pending()
        for i, _ in rx_watch:
            GLib.SOURCES.pop(i, None)
    # B's keepalive timer expires
    for i, v in sources_of(B, 'timeout'):
        if v[1].__name__ == '_keepalive_timeout':
            GLib._dispatch(i)
    GLib.run_pending()
    stream_tail = bytes(sa.rx)
    for i, v in rx_watch:
        if not sa.closed:
            GLib.SOURCES[i] = v
    GLib.run_pending()
    return A, B, sa, sb


res = {}
for coalesce in (False, True):
    A, B, sa, sb = scenario(coalesce)
    res[coalesce] = (A._state, sa.closed, B._state, sb.closed, list(GLib.ERRORS))
    print('%-26s A: state=%s closed=%s   B: state=%s closed=%s   errors=%s' % (
        'one read (coalesced):' if coalesce else 'two reads:', A._state, sa.closed, B._state, sb.closed, GLib.ERRORS))

print()
print('expected: the same octet stream leads to the same outcome: A, having sent and received SESS_TERM with nothing in flight, closes the connection')
if res[False][1] and not res[True][1]:
    print('observed: when SESS_TERM and the following KEEPALIVE arrive in one read, _check_sess_term() sees a non-empty receive')
    print('          buffer, does not close, and is never run again: both ends stay in "ending" for good')
    print('          (every later KEEPALIVE also resets the idle timer, so idle_time does not help).')
    print('DEFECT SHOWN')
    sys.exit(1)
print('observed: same outcome for both splits')
sys.exit(0)
