#!/bin/sh
HUNT_SRC=/tmp/hunt/w2/src PYTHONPATH=/tmp/hunt:/tmp/hunt/stubs:/tmp/hunt/w2/src exec /venv/bin/python "$@"
