#!/usr/bin/env python
"""C17 (contact header with wrong magic -> "closure and keeps running: its event
callbacks never escape with an exception") and C07 (acted-on sequence must not
depend on the split).

Messenger.recv_message() closes the connection on a bad contact header and
returns, but the while-loop in Messenger.recv_raw() goes on dispatching whatever
else is in the receive buffer to the closed connection.

Peer octet stream (passive endpoint under test):
    'xtn!' 04 00            contact header, wrong magic
    'dtn!' 04 00            a good contact header
    SESS_INIT
delivered (a) in one read, (b) header by header.

exit 1 = defect shown, 0 = not shown
"""
import sys
from tcpcl_harness import *

BAD = b'xtn!\x04\x00'
GOOD = b'dtn!\x04\x00'
INIT = bytes(messages.MessageHead() / messages.SessionInit(nodeid_data='dtn://peer/'))


def run(chunks, **cfg):
    GLib.SOURCES.clear(); GLib.ERRORS.clear(); dbus.service.EMITTED.clear()
    peer, sock = pair()
    H = mk(sock, True, **cfg)
    acted = []
    orig = H.recv_message
    H.recv_message = lambda pkt: (acted.append(type(pkt).__name__ + '/' + type(pkt.payload).__name__), orig(pkt))[1]
    H.start(); GLib.run_pending()
    for c in chunks:
        if sock.closed:
            break
        inject(sock, c); GLib.run_pending()
    states = [a[0] for n, a in dbus.service.EMITTED if n == 'session_state_changed']
    return dict(acted=acted, closed=sock.closed, states=states, errors=list(GLib.ERRORS))


one = run([BAD + GOOD + INIT])
split = run([BAD, GOOD, INIT])
for name, r in (('one read', one), ('three reads', split)):
    print('%-12s acted on: %s' % (name, r['acted']))
    print('%-12s closed=%s state signals=%s' % ('', r['closed'], r['states']))
    print('%-12s exceptions escaping the io callback: %s' % ('', r['errors']))

print()
print('expected: the wrong-magic header closes the connection, nothing after it is acted on, no exception leaves the callback,')
print('          and the result does not depend on the split')
bad = False
if one['errors']:
    print('observed: with one read the endpoint goes on to act on %d more item(s) after close() and the io callback ends with %s: %s'
          % (len(one['acted']) - 1, one['errors'][0][1], one['errors'][0][2]))
    bad = True
if one['acted'] != split['acted'] or one['states'] != split['states']:
    print('observed: acted-on sequence / emitted state signals differ between the two splits of the same stream')
    bad = True

# same mechanism, other closing branch: TLS policy violated by a good contact header
pol = run([GOOD + INIT], require_tls=True)
print()
print('require_tls=True, peer without CAN_TLS sends contact header and SESS_INIT in one read:')
print('   acted on %s closed=%s escaping exceptions=%s' % (pol['acted'], pol['closed'], pol['errors']))
if pol['errors'] or len(pol['acted']) > 1:
    bad = True
if bad:
    print('DEFECT SHOWN')
    sys.exit(1)
print('observed: as expected')
sys.exit(0)
