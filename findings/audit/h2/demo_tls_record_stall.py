#!/usr/bin/env python
"""C07: "a complete message is acted on as soon as its final octet arrives".

Over TLS the receive path reads at most CHUNK_SIZE (10240) octets per
io-watch callback (Connection._rx_proxy) and then goes back to waiting for the
*file descriptor* to become readable.  A TLS record may carry up to 16384
octets; what was not taken by recv(10240) stays decrypted inside the SSL
object, the descriptor is not readable, and the tail of the message is not
seen until the peer happens to send something else.

The demo runs a real passive ContactHandler on a loopback TCP socket with the
project's test PKI, plays the active peer by hand in a thread, and sends one
XFER_SEGMENT (START|END, 12000 data octets) in a single TLS record
after the session is established.

exit 1 = defect shown, 0 = not shown
"""
import os, sys, socket, ssl, select, struct, threading, time, logging
sys.path[:0] = [os.environ.get('HUNT_STUBS', '/tmp/hunt/stubs'), os.environ['HUNT_SRC']]
logging.basicConfig(level=logging.CRITICAL)
from gi.repository import GLib
import dbus.service
from tcpcl.config import Config
from tcpcl.session import ContactHandler
from tcpcl import messages

SHIM = not hasattr(ssl, 'match_hostname')
if SHIM:
    # Python >= 3.12 removed ssl.match_hostname, which merge_session_params()
    # calls "for reference" only; give it back so that the session can come up.
    ssl.match_hostname = lambda cert, name: None

PKI = os.path.join(os.path.dirname(os.environ['HUNT_SRC'].rstrip('/')), 'testpki')


def pump(duration):
    ''' a small real event loop over the sources registered with the GLib stand-in '''
    end = time.time() + duration
    while time.time() < end:
        did = False
        for i, (kind, func, args, extra) in list(GLib.SOURCES.items()):
            if i not in GLib.SOURCES:
                continue
            if kind == 'idle':
                GLib._dispatch(i); did = True
            elif kind == 'io':
                sock, cond = extra
                if sock is None or sock.fileno() < 0:
                    continue
                r, w, _ = select.select([sock] if cond == GLib.IO_IN else [],
                                        [sock] if cond == GLib.IO_OUT else [], [], 0)
                if r or w:
                    GLib._dispatch(i); did = True
        if not did:
            time.sleep(0.01)


lsock = socket.socket(); lsock.bind(('127.0.0.1', 0)); lsock.listen(1)
port = lsock.getsockname()[1]

go_on = threading.Event()
peer_log = []


def peer():
    s = socket.create_connection(('127.0.0.1', port))
    s.sendall(b'dtn!\x04\x01')                    # contact header, CAN_TLS
    got = b''
    while len(got) < 6:
        got += s.recv(6 - len(got))
    peer_log.append(('contact header from endpoint', got))
    ctx = ssl.SSLContext(ssl.PROTOCOL_TLS_CLIENT)
    ctx.check_hostname = False
    ctx.verify_mode = ssl.CERT_NONE
    ctx.load_cert_chain(os.path.join(PKI, 'client-transport.crt'), os.path.join(PKI, 'client-transport.key'))
    t = ctx.wrap_socket(s)
    nodeid = b'dtn://client/'
    t.sendall(b'\x07' + struct.pack('!HQQH', 0, 2**64 - 1, 2**64 - 1, len(nodeid)) + nodeid
              + struct.pack('!I', 0))
    time.sleep(1.0)                                # session comes up
    data = b'B' * 12000
    seg = b'\x01' + struct.pack('!BQI', 3, 1, 0) + struct.pack('!Q', len(data)) + data   # START|END
    peer_log.append(('XFER_SEGMENT octets', len(seg)))
    t.sendall(seg)                                 # <= 16384, goes out as one TLS record
    go_on.wait(20)
    t.sendall(b'\x04')                             # any later octet (a KEEPALIVE)
    time.sleep(1.0)
    try:
        t.close()
    except Exception:
        pass


th = threading.Thread(target=peer, daemon=True); th.start()
conn, fromaddr = lsock.accept()
cfg = Config(tls_enable=True, node_id='dtn://server/',
             tls_ca_file=os.path.join(PKI, 'ca.crt'),
             tls_cert_file=os.path.join(PKI, 'server-transport.crt'),
             tls_key_file=os.path.join(PKI, 'server-transport.key'))
H = ContactHandler(hdl_kwargs=dict(config=cfg, sock=conn, fromaddr=fromaddr),
                   bus_kwargs=dict(conn=None, object_path='/c/tls'))
acted = []
orig = H.recv_message


def rec(pkt):
    acted.append((time.time(), type(pkt.payload).__name__, len(bytes(pkt))))
    return orig(pkt)


H.recv_message = rec
H.start()
pump(4.0)                                          # contact, TLS handshake, SESS_INIT, then the segment record arrives

names1 = [a[1] for a in acted]
pending = H.get_secure_socket().pending() if H.get_secure_socket() else None
print('ssl.match_hostname shimmed:', SHIM)
print('peer:', peer_log[1:] if len(peer_log) > 1 else peer_log)
print('secure:', H.is_secure(), ' state after 4 s:', H._state)
print('messages acted on after 4 s:', names1)
print('octets in the receive buffer:', H.recv_buffer_used(), ' octets already decrypted inside the SSL object:', pending)
stalled = 'TransferSegment' not in names1
fin1 = [e for e in dbus.service.EMITTED if e[0] == 'recv_bundle_finished']
print('recv_bundle_finished signals so far:', fin1)

go_on.set()
pump(2.0)
names2 = [a[1] for a in acted]
print('after the peer sent one more octet (KEEPALIVE): acted on', names2, ' state', H._state)
print('recv_bundle_finished signals now:', [e for e in dbus.service.EMITTED if e[0] == 'recv_bundle_finished'])
print('escaped exceptions:', GLib.ERRORS)

print()
print('expected: the complete XFER_SEGMENT is acted on when its last octet has arrived (bundle delivered and acknowledged without further traffic)')
if stalled and 'TransferSegment' in names2:
    print('observed: the XFER_SEGMENT was left half-read (%s octets held back inside the SSL object) and the bundle was not delivered until an unrelated later octet arrived' % pending)
    print('DEFECT SHOWN')
    sys.exit(1)
print('observed: no stall')
sys.exit(0)
