#!/usr/bin/env python
"""C07: "trailing octets are kept for the next message" / the acted-on sequence is
"determined only by the octet stream, never by where the network splits it".

An unknown message type is now passed on to be rejected, but MessageHead leaves
everything that happens to be in the buffer behind the type octet attached to it
as Raw payload, and recv_raw() removes len(bytes(pkt)) octets: the unknown
"message" is as long as the read was.

Stream after session establishment:  0x99  XFER_SEGMENT(START|END, id 1, 'hi')

exit 1 = defect shown, 0 = not shown
"""
import sys
from tcpcl_harness import *

CH = b'dtn!\x04\x00'
INIT = bytes(messages.MessageHead() / messages.SessionInit(nodeid_data='dtn://peer/'))
SEG = bytes(messages.MessageHead() / messages.TransferSegment(transfer_id=1, flags=3, data=b'hi'))
UNK = b'\x99'


def run(chunks):
    GLib.SOURCES.clear(); GLib.ERRORS.clear(); dbus.service.EMITTED.clear()
    peer, sock = pair()
    H = mk(sock, True)
    acted = []
    orig = H.recv_message
    H.recv_message = lambda pkt: (acted.append(bytes(pkt).hex()), orig(pkt))[1]
    H.start(); GLib.run_pending()
    inject(sock, CH + INIT); GLib.run_pending()
    n0 = len(peer.rx); a0 = len(acted)
    for c in chunks:
        inject(sock, c); GLib.run_pending()
    return dict(acted=acted[a0:], wire=bytes(peer.rx[n0:]).hex(),
                bundles=[a for n, a in dbus.service.EMITTED if n == 'recv_bundle_finished'],
                queue=list(H.recv_bundle_get_queue()), errors=list(GLib.ERRORS))


one = run([UNK + SEG])
two = run([UNK, SEG])
for name, r in (('one read', one), ('two reads', two)):
    print('%-10s acted on %s' % (name, r['acted']))
    print('%-10s answered %s   bundles received %s  errors %s' % ('', r['wire'], r['bundles'], r['errors']))
print()
print('expected: both splits act on the same messages (either both deliver transfer 1 or neither does)')
if one['acted'] != two['acted'] or one['bundles'] != two['bundles']:
    print('observed: in one read the %d octets of the following XFER_SEGMENT are swallowed into the unknown message and the bundle is lost;'
          % len(SEG))
    print('          split after the type octet, the very same stream delivers and acknowledges the bundle')
    print('DEFECT SHOWN')
    sys.exit(1)
print('observed: same')
sys.exit(0)
