#!/usr/bin/env python
"""Adjacent to C07 ("trailing octets are kept for the next message"): when TLS is
negotiated, the octets that follow the contact header in the clear are NOT the next
message - the message stream continues inside TLS.  Messenger.recv_message() runs
the TLS handshake from inside the recv_raw() loop, and afterwards the loop goes on
to decode whatever plaintext was left in the receive buffer as if it had arrived
through TLS (the classic STARTTLS injection).

A real passive ContactHandler with the project's test PKI on a loopback socket.
The peer sends, in the clear and in one write,  contact header(CAN_TLS) + SESS_INIT
(segment MRU 5), then does the TLS handshake and sends nothing at all inside TLS.

exit 1 = defect shown, 0 = not shown
"""
import os, sys, socket, ssl, select, struct, threading, time, logging
sys.path[:0] = [os.environ.get('HUNT_STUBS', '/tmp/hunt/stubs'), os.environ['HUNT_SRC']]
logging.basicConfig(level=logging.CRITICAL)
from gi.repository import GLib
import dbus.service
from tcpcl.config import Config
from tcpcl.session import ContactHandler

SHIM = not hasattr(ssl, 'match_hostname')
if SHIM:
    # Python >= 3.12 removed ssl.match_hostname, which merge_session_params()
    # calls "for reference" only; give it back so that a TLS session can come up.
    ssl.match_hostname = lambda cert, name: None
PKI = os.path.join(os.path.dirname(os.environ['HUNT_SRC'].rstrip('/')), 'testpki')


def pump(duration):
    end = time.time() + duration
    while time.time() < end:
        did = False
        for i, (kind, func, args, extra) in list(GLib.SOURCES.items()):
            if i not in GLib.SOURCES:
                continue
            if kind == 'idle':
                GLib._dispatch(i); did = True
            elif kind == 'io':
                sock, cond = extra
                if sock is None or sock.fileno() < 0:
                    continue
                r, w, _ = select.select([sock] if cond == GLib.IO_IN else [],
                                        [sock] if cond == GLib.IO_OUT else [], [], 0)
                if r or w:
                    GLib._dispatch(i); did = True
        if not did:
            time.sleep(0.01)


lsock = socket.socket(); lsock.bind(('127.0.0.1', 0)); lsock.listen(1)
port = lsock.getsockname()[1]
done = threading.Event()


def peer():
    s = socket.create_connection(('127.0.0.1', port))
    nodeid = b'dtn://client/'
    sess_init = b'\x07' + struct.pack('!HQQH', 0, 5, 2**64 - 1, len(nodeid)) + nodeid + struct.pack('!I', 0)
    s.sendall(b'dtn!\x04\x01' + sess_init)         # all in the clear
    got = b''
    while len(got) < 6:
        got += s.recv(6 - len(got))
    ctx = ssl.SSLContext(ssl.PROTOCOL_TLS_CLIENT)
    ctx.check_hostname = False
    ctx.verify_mode = ssl.CERT_NONE
    ctx.load_cert_chain(os.path.join(PKI, 'client-transport.crt'), os.path.join(PKI, 'client-transport.key'))
    t = ctx.wrap_socket(s)
    done.wait(20)                                  # nothing is sent inside TLS


threading.Thread(target=peer, daemon=True).start()
conn, fromaddr = lsock.accept()
cfg = Config(tls_enable=True, require_tls=True, node_id='dtn://server/',
             tls_ca_file=os.path.join(PKI, 'ca.crt'),
             tls_cert_file=os.path.join(PKI, 'server-transport.crt'),
             tls_key_file=os.path.join(PKI, 'server-transport.key'))
H = ContactHandler(hdl_kwargs=dict(config=cfg, sock=conn, fromaddr=fromaddr),
                   bus_kwargs=dict(conn=None, object_path='/c/tls'))
acted = []
orig = H.recv_message
H.recv_message = lambda pkt: (acted.append((type(pkt.payload).__name__, H.is_secure())), orig(pkt))[1]
H.start()
pump(3.0)
done.set()

print('ssl.match_hostname shimmed:', SHIM)
print('secure:', H.is_secure(), ' state:', H._state, ' escaped exceptions:', GLib.ERRORS)
print('acted on (message, TLS up at that moment):', acted)
print('negotiated from it: peer_segment_mru=%r authn_nodeid=%r' % (
    H._sess_parameters.get('peer_segment_mru'), H._sess_parameters.get('authn_nodeid')))
print()
print('expected: with require_tls the only SESS_INIT acted on is one received through the TLS connection; none was sent, so the session stays in negotiation')
if H._state == 'established' and H.is_secure():
    print('observed: the cleartext SESS_INIT that trailed the contact header was acted on after the handshake; session established with its parameters')
    print('DEFECT SHOWN')
    sys.exit(1)
print('observed: not established')
sys.exit(0)
