import random
from chk import *
from indep import *
from tcpcl import formats
rnd=random.Random(1)
def rext():
    items=[]
    for _ in range(rnd.choice([0,0,1,1,2,3])):
        ty=rnd.choice([1,0xff,0x10,0x1234])
        ln={1:8,0xff:10}.get(ty, rnd.choice([0,1,3,8]))
        if rnd.random()<0.2: ln=rnd.choice([0,2,8,10,12])
        items.append((rnd.choice([0,1]),ty,bytes(rnd.randrange(256) for _ in range(ln))))
    return items
def rmsg():
    k=rnd.choice(['SEG','SEG','ACK','REFUSE','KA','TERM','REJECT','INIT'])
    if k=='SEG':
        fl=rnd.choice([0,1,2,3]); return ('SEG',fl,rnd.choice([0,1,2,2**64-1]),rext() if fl&2 else None,bytes(rnd.randrange(256) for _ in range(rnd.choice([0,0,1,5,300]))))
    if k=='ACK': return ('ACK',rnd.choice([0,1,2,3]),rnd.choice([0,1,7]),rnd.choice([0,5,2**64-1]))
    if k=='REFUSE': return ('REFUSE',rnd.randrange(8),rnd.choice([0,1,9]))
    if k=='KA': return ('KA',)
    if k=='TERM': return ('TERM',rnd.choice([0,1]),rnd.randrange(7))
    if k=='REJECT': return ('REJECT',rnd.randrange(1,4),rnd.randrange(1,8))
    if k=='INIT': return ('INIT',rnd.choice([0,30,65535]),rnd.choice([0,1,2**64-1]),rnd.choice([0,2**64-1]),rnd.choice([b'',b'dtn://n/',b'ipn:1.0']),rext())
# 1. pure decode: every prefix must raise VerifyError, full + trailing must consume exact
bad=0
for it in range(3000):
    m=rmsg(); enc=enc_msg(m)
    for cut in range(1,len(enc)):
        if len(enc)>60 and cut not in (1,2,9,10,13,14,18,21,22,len(enc)-1,len(enc)-2, len(enc)//2): continue
        try:
            p=messages.MessageHead(enc[:cut]); d=bytes(p)
            print('PREFIX ACCEPTED',m,cut,len(enc),d.hex()); bad+=1; break
        except formats.VerifyError: pass
        except Exception as e:
            print('PREFIX EXC',m,cut,type(e),e); bad+=1; break
    for trail in (b'',b'\x04',b'\x01\x00',b'\xff'*7):
        try:
            p=messages.MessageHead(enc+trail); d=bytes(p)
            if d!=enc: print('CONSUMED WRONG',m,trail,d.hex(),enc.hex()); bad+=1
        except Exception as e:
            print('FULL EXC',m,trail,type(e),e); bad+=1
    if bad>10: break
print('bad',bad)
