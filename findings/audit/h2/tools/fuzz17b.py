import random, sys
from tcpcl_harness import *
from indep import *
def gen(rnd):
    k=rnd.choice(['SEG','SEG','ACK','ACK','REFUSE','KA','TERM','REJECT','INIT','CH','BADCH'])
    if k=='SEG': m=('SEG',rnd.choice([0,1,2,3]),rnd.choice([1,2]),[],bytes(rnd.randrange(97,100) for _ in range(rnd.choice([0,2]))))
    elif k=='ACK': m=('ACK',rnd.choice([0,1,2,3]),rnd.choice([0,1,2,3,99]),rnd.choice([0,1,50,2**64-1]))
    elif k=='REFUSE': m=('REFUSE',rnd.randrange(8),rnd.choice([0,1,2,3,99]))
    elif k=='KA': m=('KA',)
    elif k=='TERM': m=('TERM',rnd.choice([0,1]),rnd.randrange(7))
    elif k=='REJECT': m=('REJECT',rnd.randrange(1,4),rnd.randrange(1,8))
    elif k=='INIT': m=('INIT',rnd.choice([0,30]),rnd.choice([1,2**64-1]),2**64-1,b'dtn://q/',[])
    elif k=='CH': return b'dtn!\x04\x00','CH'
    elif k=='BADCH': return rnd.choice([b'dtn!\x03\x00',b'xtn!\x04\x00',b'dtn!\x05\x00']),'BADCH'
    return enc_msg(m),m
def run(seed, passive):
    rnd=random.Random(seed)
    GLib.SOURCES.clear(); GLib.ERRORS.clear(); dbus.service.EMITTED.clear()
    me,sb=pair()
    cfg={}
    if rnd.random()<0.3: cfg['modulate_target_ack_time']=1
    if rnd.random()<0.3: cfg['keepalive_time']=30; cfg['idle_time']=60
    B=mk(sb,passive,**cfg); B.start(); GLib.run_pending()
    trace=[]
    phase=rnd.choice([0,1,2,2,2])
    stream=b''
    if phase>=1: stream+=b'dtn!\x04\x00'; trace.append('CH')
    if phase>=2: stream+=enc_msg(('INIT',0,2**64-1,2**64-1,b'dtn://p/',[])); trace.append('INIT')
    for i in range(rnd.randrange(0,3)):
        B.send_bundle_data(b'z'*rnd.choice([0,1,50])); trace.append('queue')
    for step in range(rnd.randrange(1,8)):
        raw,d=gen(rnd); stream+=raw; trace.append(d)
    # random grouping
    pos=0
    while pos<len(stream) and not sb.closed:
        n=rnd.choice([1,3,10,40,len(stream)])
        inject(sb,stream[pos:pos+n]); pos+=n; GLib.run_pending()
    return B,sb,me,trace
if __name__=='__main__':
    bad=0; seen=set()
    for seed in range(int(sys.argv[1]) if len(sys.argv)>1 else 3000):
        for passive in (True,False):
            B,sb,me,trace=run(seed,passive)
            if GLib.ERRORS:
                key=tuple(e[1:] for e in GLib.ERRORS)
                if key in seen: continue
                seen.add(key)
                print('ERR seed',seed,passive,GLib.ERRORS); print('   ',trace); bad+=1
            if B._state=='established' and B._in_term and ('st',) not in seen:
                seen.add(('st',)); print('STATE established while in_term', seed, passive, trace)
        if bad>8: break
    print('bad',bad)
