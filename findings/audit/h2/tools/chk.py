import itertools, struct
from tcpcl_harness import *

def endpoint(passive=True, **cfg):
    GLib.SOURCES.clear(); GLib.ERRORS.clear(); dbus.service.EMITTED.clear()
    sa,sb=pair()
    H=mk(sb,passive,**cfg)
    log=[]
    orig=H.recv_message
    def rec(pkt):
        log.append(bytes(pkt))
        return orig(pkt)
    H.recv_message=rec
    H.start(); GLib.run_pending()
    return H,sb,sa,log

def feed(stream, cuts, passive=True, **cfg):
    H,sock,peer,log=endpoint(passive,**cfg)
    pos=0
    for c in list(cuts)+[len(stream)]:
        if c==pos: continue
        sock.rx+=stream[pos:c]; pos=c
        GLib.run_pending()
    return dict(log=log, wire=bytes(peer.rx), emitted=list(dbus.service.EMITTED), errors=list(GLib.ERRORS), state=H._state, closed=sock.closed, rxbuf=H.recv_buffer_used(), H=H)

def all_cuts(n):
    for r in range(n):
        for cuts in itertools.combinations(range(1,n),r):
            yield cuts

def sig(res):
    return (tuple(res['log']), res['wire'], tuple(map(repr,res['emitted'])), tuple(res['errors']), res['state'], res['closed'], res['rxbuf'])

def compare(stream, cutsets, **kw):
    ref=sig(feed(stream,(),**kw)); bad=[]
    for cuts in cutsets:
        s=sig(feed(stream,cuts,**kw))
        if s!=ref: bad.append((cuts,s))
    return ref,bad
