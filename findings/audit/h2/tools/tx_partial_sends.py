from tcpcl_harness import *
import os
for chunk in (1,7,10239,10240,10241):
    A,B,sa,sb=established(segment_size_tx_initial=30000)
    sa.chunk=chunk; sb.chunk=3
    data=os.urandom(70001)
    A.send_bundle_data(data); A.send_bundle_data(b''); A.send_bundle_data(b'z')
    GLib.run_pending(10**7)
    q=list(B.recv_bundle_get_queue())
    got=[bytes(B.recv_bundle_pop_data(x)) for x in q]
    fin=[a for n,a in dbus.service.EMITTED if n=='send_bundle_finished']
    print(chunk,q,[len(g) for g in got], got[0]==data if got else None, fin, GLib.ERRORS)
