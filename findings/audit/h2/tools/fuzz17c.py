import random, sys
from tcpcl_harness import *
from indep import *
def gen(rnd):
    k=rnd.choice(['SEG','SEG','ACK','ACK','REFUSE','KA','REJECT','UNK'])
    if k=='SEG': m=('SEG',rnd.choice([0,1,2,3]),rnd.choice([1,2]),[],bytes(rnd.randrange(97,100) for _ in range(rnd.choice([0,2]))))
    elif k=='ACK': m=('ACK',rnd.choice([0,1,2,3]),rnd.choice([0,99]),rnd.choice([0,1,50,2**64-1]))
    elif k=='REFUSE': m=('REFUSE',rnd.randrange(8),rnd.choice([0,99]))
    elif k=='KA': m=('KA',)
    elif k=='REJECT': m=('REJECT',rnd.randrange(1,4),rnd.randrange(1,8))
    elif k=='UNK': return bytes([rnd.choice([0,8,0x99])]),'UNK'
    return enc_msg(m),m
def run(seed, passive):
    rnd=random.Random(seed)
    GLib.SOURCES.clear(); GLib.ERRORS.clear(); dbus.service.EMITTED.clear()
    me,sb=pair()
    cfg={'segment_size_tx_initial':rnd.choice([1,7,100000])}
    if rnd.random()<0.3: cfg['modulate_target_ack_time']=1
    B=mk(sb,passive,**cfg); B.start(); GLib.run_pending()
    trace=[]; sent={}
    def queue():
        d=bytes(rnd.randrange(256) for _ in range(rnd.choice([0,1,20,50])))
        tid=int(B.send_bundle_data(d)); sent[tid]=d; trace.append(('queue',tid,len(d)))
    def send(raw,d):
        trace.append(d); inject(sb,raw); GLib.run_pending()
    pre=rnd.random()<0.5
    if pre: queue()
    send(b'dtn!\x04\x00','CH')
    for i in range(rnd.randrange(0,3)): send(*gen(rnd))
    send(enc_msg(('INIT',0,2**64-1,2**64-1,b'dtn://p/',[])),'INIT')
    for step in range(rnd.randrange(1,10)):
        if rnd.random()<0.3: queue(); 
        if rnd.random()<0.5: GLib.run_pending()
        send(*gen(rnd))
    GLib.run_pending()
    # now behave: parse B's output, ack its segments
    out=me.rx; 
    # skip contact header
    assert out[:6]==b'dtn!\x04\x00', out[:6]
    msgs,rest=dec_stream(out[6:])
    got={}
    for m,raw in msgs:
        if m[0]=='SEG':
            if m[1]&2: got[m[2]]=b''
            got[m[2]]=got.get(m[2],b'')+m[4]
            inject(sb,enc_msg(('ACK',m[1],m[2],len(got[m[2]])))); 
    GLib.run_pending()
    # second round (segments emitted after acks)
    for _ in range(100):
        out2=me.rx[6+sum(len(r) for _,r in msgs):]
        more,rest=dec_stream(out2)
        if not more: break
        for m,raw in more:
            msgs.append((m,raw))
            if m[0]=='SEG':
                if m[1]&2: got[m[2]]=b''
                got[m[2]]=got.get(m[2],b'')+m[4]
                inject(sb,enc_msg(('ACK',m[1],m[2],len(got[m[2]]))))
        GLib.run_pending()
    fin={int(a[0]):a[2] for n,a in dbus.service.EMITTED if n=='send_bundle_finished'}
    problems=[]
    for tid,d in sent.items():
        if got.get(tid)!=d: problems.append(('wire data',tid,len(d),got.get(tid)))
        if fin.get(tid)!='success': problems.append(('finish',tid,fin.get(tid)))
    if rest: problems.append(('rest',rest))
    return problems,trace,B
if __name__=='__main__':
    bad=0
    for seed in range(int(sys.argv[1]) if len(sys.argv)>1 else 2000):
        for passive in (True,False):
            problems,trace,B=run(seed,passive)
            if problems or GLib.ERRORS:
                print('seed',seed,passive,problems,GLib.ERRORS); print('   ',trace); bad+=1
        if bad>5: break
    print('bad',bad)
