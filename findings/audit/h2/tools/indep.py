"""independent RFC 9174 encoder/decoder (no scapy)"""
import struct
class Need(Exception): pass
def take(b,o,n):
    if o+n>len(b): raise Need()
    return b[o:o+n],o+n
def dec_ext(b):
    o=0; items=[]
    while o<len(b):
        h,o=take(b,o,5); fl,ty,ln=struct.unpack('!BHH',h)
        v,o=take(b,o,ln); items.append((fl,ty,v))
    return items
def enc_ext(items):
    return b''.join(struct.pack('!BHH',fl,ty,len(v))+v for fl,ty,v in items)
def dec_msg(b,o=0):
    t,o=take(b,o,1); t=t[0]
    if t==1:
        h,o=take(b,o,9); fl,tid=struct.unpack('!BQ',h); ext=None
        if fl&2:
            h,o=take(b,o,4); el=struct.unpack('!I',h)[0]; e,o=take(b,o,el); ext=dec_ext(e)
        h,o=take(b,o,8); dl=struct.unpack('!Q',h)[0]; d,o=take(b,o,dl)
        return ('SEG',fl,tid,ext,d),o
    if t==2:
        h,o=take(b,o,17); return ('ACK',)+struct.unpack('!BQQ',h),o
    if t==3:
        h,o=take(b,o,9); return ('REFUSE',)+struct.unpack('!BQ',h),o
    if t==4: return ('KA',),o
    if t==5:
        h,o=take(b,o,2); return ('TERM',)+struct.unpack('!BB',h),o
    if t==6:
        h,o=take(b,o,2); r,hd=struct.unpack('!BB',h); return ('REJECT',r,hd),o   # RFC: reason then header
    if t==7:
        h,o=take(b,o,20); ka,smru,tmru,nl=struct.unpack('!HQQH',h); n,o=take(b,o,nl)
        h,o=take(b,o,4); el=struct.unpack('!I',h)[0]; e,o=take(b,o,el)
        return ('INIT',ka,smru,tmru,n,dec_ext(e)),o
    return ('UNKNOWN',t),o
def enc_msg(m):
    k=m[0]
    if k=='SEG':
        _,fl,tid,ext,d=m; r=struct.pack('!BBQ',1,fl,tid)
        if fl&2:
            e=enc_ext(ext or []); r+=struct.pack('!I',len(e))+e
        return r+struct.pack('!Q',len(d))+d
    if k=='ACK': return struct.pack('!BBQQ',2,*m[1:])
    if k=='REFUSE': return struct.pack('!BBQ',3,*m[1:])
    if k=='KA': return b'\x04'
    if k=='TERM': return struct.pack('!BBB',5,*m[1:])
    if k=='REJECT': return struct.pack('!BBB',6,m[1],m[2])
    if k=='INIT':
        _,ka,smru,tmru,n,ext=m; e=enc_ext(ext)
        return struct.pack('!BHQQH',7,ka,smru,tmru,len(n))+n+struct.pack('!I',len(e))+e
def dec_stream(b):
    o=0; out=[]
    while o<len(b):
        try: m,o2=dec_msg(b,o)
        except Need: break
        out.append((m,b[o:o2])); o=o2
    return out,b[o:]
