import itertools, sys
from chk import *
from indep import *
CH=b'dtn!\x04\x00'
INIT=enc_msg(('INIT',0,2**64-1,2**64-1,b'dtn://p/',[]))
pre=CH+INIT
def tails():
    yield 'ka,reject,term', b'\x04'+enc_msg(('REJECT',1,2))+enc_msg(('TERM',0,0))+b'\x04'
    yield 'refuse,ka', enc_msg(('REFUSE',1,5))+b'\x04'
    yield 'term,term', enc_msg(('TERM',0,1))+enc_msg(('TERM',1,1))+b'\x04\x04'
    yield 'seg-nostart', enc_msg(('SEG',1,5,None,b''))
def cutsets(n0,n,maxr):
    for r in range(0,maxr+1):
        for c in itertools.combinations(range(n0,n),r): yield c
for name,t in tails():
    st=pre+t; n=len(st)
    ex = n-len(pre)<=13
    ref,bad=compare(st, cutsets(len(pre), n, (n-len(pre)) if ex else 2))
    print(name,'len',n-len(pre),'exhaustive' if ex else 'pairs','diffs',len(bad))
    for cuts,s in bad[:3]:
        print('  cuts',cuts,'log',[x.hex() for x in s[0]][2:],'state',s[4],'closed',s[5]); print('  ref      log',[x.hex() for x in ref[0]][2:],'state',ref[4],'closed',ref[5])
# longer: single and double cuts
for name,t in [('seg+ext', enc_msg(('SEG',3,1,[(0,1,b'\0'*7+b'\x02')],b'hi'))+enc_msg(('SEG',2,2,[],b''))+enc_msg(('SEG',1,2,None,b'x'))),
               ('ack,ack', enc_msg(('ACK',1,1,0))+enc_msg(('ACK',0,9,5)))]:
    st=pre+t; n=len(st)
    ref,bad=compare(st, cutsets(len(pre),n,2))
    print(name,'len',n-len(pre),'pairs diffs',len(bad))
    for cuts,s in bad[:3]:
        print('  cuts',cuts,'log',[x.hex() for x in s[0]][2:],'state',s[4],'closed',s[5])
# the prelude itself, exhaustive on contact header + first 6 octets
st=pre+b'\x04'
ref,bad=compare(st, cutsets(1,13,12))
print('prelude exhaustive diffs',len(bad))
ref,bad=compare(st, cutsets(1,len(st),2), passive=False)
print('prelude active pairs diffs',len(bad))
