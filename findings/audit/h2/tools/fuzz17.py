import random, sys
from tcpcl_harness import *
from indep import *
def detach(H):
    for i,v in list(GLib.SOURCES.items()):
        if getattr(v[1],'__self__',None) is H: GLib.SOURCES.pop(i)
def run(seed, passive, verbose=False):
    rnd=random.Random(seed)
    GLib.SOURCES.clear(); GLib.ERRORS.clear(); dbus.service.EMITTED.clear()
    me,sb=pair()   # me = peer's socket (hand driven); sb = endpoint socket
    cfg={}
    if rnd.random()<0.3: cfg['modulate_target_ack_time']=1
    if rnd.random()<0.3: cfg['keepalive_time']=30; cfg['idle_time']=60
    B=mk(sb,passive,**cfg); B.start(); GLib.run_pending()
    trace=[]
    def send(raw,desc):
        trace.append(desc)
        if sb.closed: return
        inject(sb,raw); GLib.run_pending()
    phase=rnd.choice([0,1,2,2,2])  # how far to bring up legit
    if phase>=1: send(b'dtn!\x04\x00','CH')
    if phase>=2: send(enc_msg(('INIT',0,2**64-1,2**64-1,b'dtn://p/',[])),'INIT')
    nq=0
    for step in range(rnd.randrange(1,12)):
        if rnd.random()<0.25 and not sb.closed:
            try:
                B.send_bundle_data(bytes(rnd.randrange(256) for _ in range(rnd.choice([0,1,50])))); nq+=1; trace.append('queue'); GLib.run_pending()
            except Exception as e:
                trace.append('queue-exc %r'%e)
        k=rnd.choice(['SEG','SEG','ACK','ACK','REFUSE','KA','TERM','REJECT','INIT','UNK','CH','BADCH'])
        if k=='SEG': m=('SEG',rnd.choice([0,1,2,3]),rnd.choice([1,2]),[],bytes(rnd.randrange(97,100) for _ in range(rnd.choice([0,2]))))
        elif k=='ACK': m=('ACK',rnd.choice([0,1,2,3]),rnd.choice([0,1,2,3,99]),rnd.choice([0,1,50,2**64-1]))
        elif k=='REFUSE': m=('REFUSE',rnd.randrange(8),rnd.choice([0,1,2,3,99]))
        elif k=='KA': m=('KA',)
        elif k=='TERM': m=('TERM',rnd.choice([0,1]),rnd.randrange(7))
        elif k=='REJECT': m=('REJECT',rnd.randrange(1,4),rnd.randrange(1,8))
        elif k=='INIT': m=('INIT',rnd.choice([0,30]),rnd.choice([1,2**64-1]),2**64-1,b'dtn://q/',[])
        elif k=='UNK': send(bytes([rnd.choice([0,8,0x99,0xff])]),'UNK'); continue
        elif k=='CH': send(b'dtn!\x04\x00','CH'); continue
        elif k=='BADCH': send(rnd.choice([b'dtn!\x03\x00',b'xtn!\x04\x00',b'dtn!\x05\x00']),'BADCH'); continue
        send(enc_msg(m),m)
        if rnd.random()<0.1: GLib.fire_timeouts(); GLib.run_pending(); trace.append('timeouts')
    return B,sb,me,trace
if __name__=='__main__':
    bad=0
    for seed in range(int(sys.argv[1]) if len(sys.argv)>1 else 3000):
        for passive in (True,False):
            try:
                B,sb,me,trace=run(seed,passive)
            except Exception as e:
                import traceback; traceback.print_exc(); print('HARNESS EXC',seed,passive); bad+=1; continue
            if GLib.ERRORS:
                print('ERR seed',seed,passive,GLib.ERRORS); print('   ',trace); bad+=1
        if bad>8: break
    print('bad',bad)
