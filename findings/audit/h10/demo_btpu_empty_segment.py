#!/usr/bin/env python
''' C20: "a receiver that gets each segment once in any order queues exactly that bundle once" and
"decoding then re-encoding any valid frame reproduces it" (the frame below is valid and round-trips).

A transfer segment / end message that carries no data octets (message length == 8, e.g. a peer that closes
a transfer with an empty Transfer End) has no Raw payload after dissection, and _recv_msg evaluates
msg.payload.payload.load unconditionally -> AttributeError.  Only the MessageSet() decode is inside
try/except, so
  (1) the remaining messages of the frame are dropped and the transfer is never completed, and
  (2) the exception escapes the io-watch callback _sock_recvfrom, GLib drops the watch, and the agent
      never receives anything on that interface again.
Exit 1 when the defect shows.
'''
from btpu_h import *
fail = False

seg0 = bytes(MessageHead() / TransferSeg(xfer_num=7, seg_idx=0) / Raw(b'\x9fhello\xff'))
end1 = bytes(MessageHead() / TransferEnd(xfer_num=7, seg_idx=1))            # no data octets
other = b'\x9f' + b'\x02' * 20 + b'\xff'
pdu = bytes(MessageHead() / BundlePdu(other))
frame_payload = seg0 + end1 + pdu
assert bytes(MessageSet(frame_payload)) == frame_payload and len(MessageSet(frame_payload).msgs) == 3
print('frame = [Seg idx0 7 octets][End idx1 0 octets][Bundle PDU]; decodes to 3 messages and re-encodes identically')

def eth(p): return bytes(Ether(src=PEER, dst=LOCAL, type=0x88b5) / Raw(p))

r, rs = mkagent()
r._recv_wait[rs] = GLib.io_add_watch(rs, GLib.IO_IN, r._sock_recvfrom)       # what listen() does
rs.rxq.append(eth(frame_payload)); GLib.run_pending()
q = rxq(r)
print('expected: two bundles queued (the reassembled 7 octet transfer and the bundle PDU)')
print('observed: queued=%r escaped=%s' % (q, GLib.ERRORS))
if sorted(q) != sorted([b'\x9fhello\xff', other]):
    fail = True
rs.rxq.append(eth(pdu)); GLib.run_pending()
alive = any(v[0] == 'io' for v in GLib.SOURCES.values())
q = rxq(r)
print('then an ordinary single-PDU frame: expected queued=1; observed queued=%d, io watch alive=%s, unread frames=%d'
      % (len(q), alive, len(rs.rxq)))
if q != [other]:
    fail = True
print('DEFECT' if fail else 'ok')
sys.exit(1 if fail else 0)
