#!/usr/bin/env python
''' C13: "A bundle sent over UDPCL is emitted either as one datagram or, when it does not fit the configured
MTU, as transfer segments ..."

A bundle whose length EQUALS the MTU fits it (a datagram of MTU octets is allowed: the segments the agent
builds itself are allowed to be exactly MTU octets), yet _send_transfer tests `len(data) < mtu` and
segments it into two transfer datagrams.
Exit 1 when the defect shows.
'''
from udpcl_h import *
fail = False
for mtu in (64, 100, 255, 256, 1400):
    for n in (mtu - 1, mtu, mtu + 1):
        a, s = mkagent(mtu_default=mtu)
        b = bundle(n)
        send(a, b); crank()
        kinds = ['bundle' if d[0] >> 5 == 4 else 'segment' for d in s.sent]
        exp = 1 if n <= mtu else None
        ok = all(len(d) <= mtu for d in s.sent) and (exp is None or (len(s.sent) == 1 and s.sent[0] == b))
        print('mtu %4d bundle %4d octets -> %d datagram(s) %s sizes %s%s'
              % (mtu, n, len(s.sent), kinds, [len(d) for d in s.sent], '' if ok else '   <-- fits the MTU, expected 1 unsegmented datagram'))
        if not ok:
            fail = True
print('DEFECT' if fail else 'ok')
sys.exit(1 if fail else 0)
