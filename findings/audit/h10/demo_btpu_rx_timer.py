#!/usr/bin/env python
''' C20: "a receiver that gets each segment once in any order queues exactly that bundle once"
(quantified over schedules).

RxTransfer.timeout_id is documented as "glib timer ID to time out this transfer.  It gets reset each time
a new segment is received."  _recv_msg instead ADDS a fresh 1000 ms timer per segment, never stores or
removes any of them.  So
  * the timer of segment 0 discards the transfer 1000 ms after the FIRST segment although later segments
    keep arriving (the transfer is not idle);
  * the segments arriving afterwards start a new partial transfer under the same key, which the stale timers
    of the earlier segments then discard as well;
  * after a normal completion every leftover timer raises KeyError in _rx_progress_cancel.
Schedule used: seg0 at t=0, seg1 at t=0.9 s, [t=1.0 s: timer of seg0 fires], end segment at t=1.1 s.
Every segment is delivered exactly once.  Exit 1 when the defect shows.
'''
from btpu_h import *
fail = False

snd, s = mkagent(mtu_default=40)
b = b'\x9f' + bytes(range(1, 60)) + b'\xff'
send(snd, b); GLib.run_pending()
frames = list(s.sent)
print('sender: %d frames, BTP-U sizes %s' % (len(frames), [len(p) for p in payloads(s)]))
assert len(frames) == 3

r, rs = mkagent()
r._recv_wait[rs] = GLib.io_add_watch(rs, GLib.IO_IN, r._sock_recvfrom)       # what listen() does
timers = lambda: set(i for i, v in GLib.SOURCES.items() if v[0] == 'timeout')
def fire(ids):
    n = 0
    for i in sorted(ids):
        if i in GLib.SOURCES:
            GLib._dispatch(i); n += 1
    return n
rs.rxq.append(frames[0]); GLib.run_pending()          # t = 0
t0 = timers()
rs.rxq.append(frames[1]); GLib.run_pending()          # t = 0.9 s
t1 = timers() - t0
print('receiver: 2 of 3 segments in, pending 1000 ms timers:', len(timers()), '(expected 1, re-armed by the newest segment)')
n = fire(t0)                                          # t = 1.0 s: whatever segment 0 armed and is still armed
print('t=1.0s  %d timer(s) armed by segment 0 fired; transfers in progress: %d' % (n, len(r._rx_progres)))
rs.rxq.append(frames[2]); GLib.run_pending()          # t = 1.1 s: end segment
q = rxq(r)
print('t=1.1s  end segment delivered')
print('  expected: the bundle is queued exactly once')
print('  observed: queued=%d, partial transfers=%d' % (len(q), len(r._rx_progres)))
if q != [b]:
    fail = True
n = fire(t1)                                          # t = 1.9 s: whatever segment 1 armed and is still armed
print('t=1.9s  %d stale timer(s) of segment 1 fired; partial transfers=%d escaped=%s' % (n, len(r._rx_progres), GLib.ERRORS))

# normal completion: leftover timers
r, rs = mkagent()
for f in frames:
    r._recv_msg(None, bytes(Ether(f).payload), rxchan())
assert rxq(r) == [b]
GLib.fire_timeouts()
print('after a complete transfer the %d leftover timers raise: %s' % (len(frames), sorted(set(e[:2] for e in GLib.ERRORS))))
if GLib.ERRORS:
    fail = True

print('DEFECT' if fail else 'ok')
sys.exit(1 if fail else 0)
