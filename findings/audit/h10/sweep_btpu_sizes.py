from btpu_h import *
import random
bad=[]
for mtu in [19,20,30,46,64,100,1500]:
    for n in [1,5,14,15,16,25,26,27,41,42,43,59,60,61,95,96,97,100,1495,1496,1497,3000,5000]:
        a,s=mkagent(mtu_default=mtu)
        b=bytes((i*7+3)%251 for i in range(n)); b=b'\x9f'+b[1:]
        send(a,b); GLib.run_pending()
        if GLib.ERRORS: bad.append((mtu,n,'ERR',GLib.ERRORS[:1])); continue
        ps=payloads(s)
        if not ps: bad.append((mtu,n,'nothing')); continue
        mx=max(map(len,ps))
        if mx>mtu: bad.append((mtu,n,'oversize',mx))
        if n+4<=mtu and len(ps)!=1: bad.append((mtu,n,'fits but segmented',len(ps)))
        # decode / re-encode
        for p in ps:
            m=MessageSet(p)
            if bytes(m)!=p: bad.append((mtu,n,'reencode'))
            for msg in m.msgs:
                hl=sum(len(bytes(h)) for h in msg.hints)
                if msg.length!=hl+len(bytes(msg.payload)): bad.append((mtu,n,'declared length'))
        r,_=mkagent()
        ds=list(ps); random.shuffle(ds)
        for i,d in enumerate(ds):
            if i==len(ds)-1 and rxq(r): bad.append((mtu,n,'early'))
            r._recv_msg(None,d,rxchan())
        q=rxq(r)
        if q!=[b]: bad.append((mtu,n,'rx mismatch',len(q), GLib.ERRORS[:1]))
for x in bad: print(x)
