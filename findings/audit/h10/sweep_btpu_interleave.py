from btpu_h import *
import random
random.seed(11)
bad=0
for it in range(200):
    mtu=random.choice([19,25,40,100])
    allp=[]; exp=[]
    for peer in ('02:00:00:00:00:02','02:00:00:00:00:03'):
        a,s=mkagent(mtu_default=mtu)
        a._tx_id=random.choice([0,0,5,2**32-3])
        for k in range(random.choice([1,2,3])):
            b=b'\x9f'+bytes(random.randrange(256) for _ in range(random.choice([1,10,mtu-6,mtu-5,mtu-4,60,200])))+b'\xff'
            send(a,b); exp.append(b)
        GLib.run_pending(); assert not GLib.ERRORS, GLib.ERRORS
        allp+=[(peer,p) for p in payloads(s)]
    random.shuffle(allp)
    r,_=mkagent()
    i=0
    while i<len(allp):
        peer,p=allp[i]; i+=1
        # maybe pack next message of same peer into the same frame
        if i<len(allp) and allp[i][0]==peer and random.random()<0.4:
            p+=allp[i][1]; i+=1
        p+=b'\0'*random.choice([0,0,5])
        r._recv_msg(None,p,rxchan(peer))
    q=rxq(r)
    if sorted(q)!=sorted(exp) or r._rx_progres: bad+=1; print('BAD',it,len(q),len(exp))
print('bad',bad)
