from btpu_h import *
for n in (2**20-1, 2**20, 2**20+5):
    try:
        p=bytes(MessageHead()/BundlePdu(b'x'*n)); print(n, p[:4].hex(), len(p))
        m=MessageSet(p); print(len(m.msgs), m.msgs[0].msg_type, m.msgs[0].flags, m.msgs[0].length, len(m.msgs[0].payload))
    except Exception as e: print(n,'EXC',type(e).__name__,e)
# hint lists
for hints in ([], [HintHead(hint_type=0)/Raw(b'\0\0\1\0')], [HintHead(hint_type=1), HintHead(hint_type=0)/Raw(b'abcd')], [HintHead(hint_type=5)/Raw(b''),HintHead(hint_type=6)/Raw(b'')],
              [HintHead(hint_type=3)/Raw(b'z'*255)], [HintHead(hint_type=3)/Raw(b'z'*256)],
              [HintHead(hint_type=0)/Raw(b'\0\0\1\0'),HintHead(hint_type=2)/Raw(b'\0\0'),HintHead(hint_type=127)/Raw(b'\xff')]):
    for body in (BundlePdu(b'hello'), TransferSeg(xfer_num=3,seg_idx=0)/Raw(b'data'), TransferEnd(xfer_num=2**32-1,seg_idx=2**32-1)/Raw(b'\0\0'), DefinitePadding(b'\0\0\0'), TransferSeg(xfer_num=3,seg_idx=0)):
        try:
            msg=MessageHead(hints=hints)/body
            p=bytes(msg)
            m=MessageSet(p+b'\0\0')
            ok = bytes(m)==p+b'\0\0' and len(m.msgs)==1 and bytes(m.msgs[0])==p
            mm=m.msgs[0]
            ok2 = [bytes(h) for h in mm.hints]==[bytes(h) for h in msg.hints] and type(mm.payload)==type(body) and bytes(mm.payload)==bytes(body)
            hl=sum(len(bytes(h)) for h in mm.hints)
            ok3 = mm.length==hl+len(bytes(mm.payload))
            if not(ok and ok2 and ok3): print('BAD',[h.summary() for h in hints], body.summary(), ok,ok2,ok3, p.hex(), mm.show(True))
        except Exception as e: print('EXC',[h.summary() for h in hints], body.summary(), type(e).__name__, e)
