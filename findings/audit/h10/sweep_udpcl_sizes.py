from udpcl_h import *
import itertools, random
bad=[]
for mtu in [20,21,24,25,30,40,64,100,256,257,280,300,1000]:
    for n in [48,49,63,64,99,100,101,255,256,257,258,279,280,281,300,1000,65535,65536,65537,70000]:
        a,s=mkagent(mtu_default=mtu)
        b=bundle(n)
        send(a,b); crank()
        if GLib.ERRORS: bad.append((mtu,n,'ERR',GLib.ERRORS[:1])); continue
        if not s.sent: bad.append((mtu,n,'nothing sent')); continue
        mx=max(map(len,s.sent))
        if mx>mtu: bad.append((mtu,n,'oversize',mx))
        if n<=mtu and len(s.sent)!=1: bad.append((mtu,n,'fits but segmented',len(s.sent)))
        # receive in random order
        r,_=mkagent()
        ds=list(s.sent); random.shuffle(ds)
        fs=FakeUdpSock()
        for i,d in enumerate(ds):
            if i==len(ds)-1 and rxq(r): bad.append((mtu,n,'early'))
            r._recv_datagram(fs,d,conv())
        q=rxq(r)
        if q!=[b]: bad.append((mtu,n,'rx mismatch',len(q)))
for x in bad: print(x)
