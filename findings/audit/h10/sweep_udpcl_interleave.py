from udpcl_h import *
import random
random.seed(3)
bad=0
for it in range(300):
    mtu=random.choice([30,64,100,300])
    peers=[('10.0.0.9',4556),('10.0.0.9',4557),('10.0.0.8',4556)]
    allseg=[]; exp=[]
    for (ad,po) in peers:
        a,s=mkagent(mtu_default=mtu)
        a._tx_id=random.choice([0,0,23,24,255,256,65535,65536])
        for k in range(random.choice([1,2,3])):
            b=bundle(max(48,random.choice([48,mtu-1,mtu,mtu+1,100,257,500])), random.randrange(250))
            send(a,b); exp.append(b)
        crank()
        assert not GLib.ERRORS, GLib.ERRORS
        assert all(len(d)<=mtu for d in s.sent)
        allseg+=[(ad,po,d) for d in s.sent]
    # duplicates
    dup=[x for x in allseg if random.random()<0.0]
    seq=allseg+dup; random.shuffle(seq)
    r,_=mkagent(); fs=FakeUdpSock()
    # pack some consecutive same-peer datagrams into one datagram w/ padding
    for (ad,po,d) in seq:
        extra=b'\0'*random.choice([0,0,3])
        r._recv_datagram(fs,d+extra,conv(ad,po))
    q=rxq(r)
    if sorted(q)!=sorted(exp) or r._rx_fragments:
        bad+=1; print('BAD',it,len(q),len(exp),len(r._rx_fragments))
print('bad',bad)
