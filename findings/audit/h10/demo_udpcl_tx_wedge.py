#!/usr/bin/env python
''' C13: "A bundle sent over UDPCL is emitted either as one datagram or, when it does not fit the configured
MTU, as transfer segments ..."

One transfer that cannot be emitted (segment overhead does not fit the MTU -> RuntimeError from
_send_transfer, or the kernel refuses the datagram -> OSError from sendmsg) raises inside the pacing timer
TxSendWait.tick().  The timer source is dropped by GLib (a raising callback counts as False) but
TxSendWait.glib_timer_id stays set and cur_item keeps pointing at the dead transfer, so start() never
re-arms the timer: every LATER bundle on that socket - including ones that fit in one datagram - is
accepted (send_bundle_started) and then never emitted.  The failed transfer itself is never reported
(no send_bundle_finished).
Exit 1 when the defect shows.
'''
from udpcl_h import *
import select

fail = False
tiny = b'\x9f' + b'\x01' * 10 + b'\xff'          # 12 octets, fits an MTU of 16 as a single datagram

# ---- part A: configured MTU 16; a 70000 octet bundle needs 19 octets of per-segment overhead
a, s = mkagent(mtu_default=16)
send(a, tiny); crank()
print('A: before the failure a 12 octet bundle goes out as', [len(d) for d in s.sent])
assert s.sent == [tiny]
send(a, bundle(70000)); crank()
print('A: unsendable 70000 octet bundle ->', GLib.ERRORS)
del s.sent[:]; errs_before = list(GLib.ERRORS)
tid = send(a, tiny); crank(seconds=600)
fin = [e for e in dbus.service.EMITTED if e[0] == 'send_bundle_finished']
sw = list(a._send_wait.values())[0]
print('A: expected: the next 12 octet bundle (transfer %s) is emitted as one datagram' % tid)
print('A: observed: datagrams emitted in 600 s = %r; timer sources alive = %d; glib_timer_id = %r; '
      'items stuck in tx_item_queue = %d; send_bundle_finished signals = %r'
      % (s.sent, sum(1 for v in GLib.SOURCES.values() if v[0] == 'timeout'), sw.glib_timer_id,
         len(sw.tx_item_queue), fin))
if s.sent != [tiny]:
    fail = True

# ---- part B: default configuration (no MTU), real loopback UDP socket, bundle larger than a UDP datagram
class RSock(socket.socket):
    def readable(self): return bool(select.select([self], [], [], 0)[0])
try:
    rx = socket.socket(socket.AF_INET, socket.SOCK_DGRAM); rx.bind(('127.0.0.1', 0)); rx.settimeout(0.2)
    tx = RSock(socket.AF_INET, socket.SOCK_DGRAM)
except OSError as e:
    rx = None; print('B: skipped, no sockets here:', e)
if rx:
    a, _ = mkagent()
    a._plain_sock.clear(); a._plain_sock[ua.Conversation().key] = tx
    port = rx.getsockname()[1]
    a.send_bundle_data(list(bundle(100)), {'address': '127.0.0.1', 'port': port}); crank()
    print('B: first bundle arrives:', len(rx.recv(65535)), 'octets')
    a.send_bundle_data(list(bundle(70000)), {'address': '127.0.0.1', 'port': port}); crank()
    print('B: 70000 octet bundle, no MTU configured ->', GLib.ERRORS)
    a.send_bundle_data(list(bundle(100)), {'address': '127.0.0.1', 'port': port}); crank(seconds=600)
    try:
        got = len(rx.recv(65535))
    except socket.timeout:
        got = None
    print('B: expected: the following 100 octet bundle arrives; observed:', got)
    if got != 100:
        fail = True

print('DEFECT' if fail else 'ok')
sys.exit(1 if fail else 0)
