#!/usr/bin/env python
''' C20: "Every BTP-U message set the agent builds ... decodes to the same messages, with declared lengths
equal to actual lengths".

The message length field is 20 bits.  With no MTU configured (the default, mtu_default=None) the agent
builds MessageHead()/BundlePdu(data) for any bundle size; for len(data) >= 2**20 scapy silently keeps only
the low 20 bits, so the declared length is len mod 2**20 and the frame decodes to something else
(an empty/short bundle PDU followed by the rest re-parsed as further "messages").  Nothing refuses the
bundle.  (Such a frame is far beyond any Ethernet MTU, so on a real interface the kernel refuses it
afterwards; the claim violated is the one about what the agent builds.)
Exit 1 when the defect shows.
'''
from btpu_h import *
fail = False
for n in (2 ** 20 - 1, 2 ** 20, 2 ** 20 + 5):
    a, s = mkagent()                      # mtu_default None
    b = b'\x9f' + bytes(n - 2) + b'\xff'
    send(a, b); GLib.run_pending()
    if not s.sent:
        print('bundle %7d octets: refused: %s' % (n, GLib.ERRORS)); continue
    p = payloads(s)[0]
    m = MessageSet(p)
    first = m.msgs[0]
    declared = first.length
    same = len(m.msgs) == 1 and isinstance(first.payload, BundlePdu) and first.payload.load == b
    print('bundle %7d octets: frame built, head %s declared length %7d actual %7d; decodes to %d message(s), same bundle: %s'
          % (n, p[:4].hex(), declared, len(p) - 4, len(m.msgs), same))
    if declared != n or not same:
        fail = True
print('expected: declared == actual (or the bundle is refused); DEFECT' if fail else 'ok')
sys.exit(1 if fail else 0)
