#!/usr/bin/env python
''' C13: "A receiver that gets each segment exactly once, in any order and interleaved with segments of
other transfers or peers, queues exactly one copy of the original bundle ... several messages in one
datagram are handled per message."

A well-formed transfer segment of ANOTHER peer that disagrees with that peer's own earlier segment
(same transfer id, different total length - e.g. the peer restarted and reuses id 0) makes
Transfer.validate() raise ValueError.  Nothing catches it:
  (1) the remaining messages of the same datagram are never looked at, and
  (2) the exception escapes the GLib io-watch callback _sock_recvfrom, so the watch is dropped
      (a callback that raises counts as returning False) and the agent never reads that socket again:
      the victim peer's segments, each delivered exactly once, never yield the bundle.
Exit 1 when the defect shows.
'''
from udpcl_h import *

class RxSock(FakeUdpSock):
    ''' datagram source for the real Agent._sock_recvfrom '''
    def __init__(self): super().__init__(); self.q=[]
    def readable(self): return bool(self.q)
    def recvmsg(self, n, anc):
        data, frm = self.q.pop(0); return data, [], 0, frm
    def getsockname(self): return ('10.0.0.1', 4556)

def seg(xid, total, off, data): return cbor2.dumps({2: [xid, total, off, data]})

fail = False

# ---- part 1: per-message handling inside one datagram
r, _ = mkagent()
b = bundle(60)
r._recv_datagram(FakeUdpSock(), seg(0, 100, 0, b'a' * 50), conv('10.0.0.7'))
try:
    r._recv_datagram(FakeUdpSock(), seg(0, 200, 0, b'b' * 50) + b, conv('10.0.0.7'))
    err = None
except Exception as e:
    err = e
q = rxq(r)
print('part 1: datagram = [segment inconsistent with the peer\'s earlier one][complete bundle]')
print('  expected: the bundle message is queued (messages are handled one by one)')
print('  observed: queue has %d bundle(s); escaped exception: %r' % (len(q), err))
if q != [b]:
    fail = True

# ---- part 2: another peer's bad segment deafens the agent for everybody
snd, s = mkagent(mtu_default=64)
victim = bundle(150)
send(snd, victim); crank()
segs = list(s.sent)
assert len(segs) >= 3 and all(len(d) <= 64 for d in segs)

r, _ = mkagent()
sock = RxSock()
r._recv_wait[sock] = GLib.io_add_watch(sock, GLib.IO_IN, r._sock_recvfrom)   # what listen() does
Y = ('10.0.0.9', 4556); X = ('10.0.0.7', 4556)
sock.q += [(segs[0], Y), (seg(0, 100, 0, b'a' * 50), X), (segs[1], Y), (seg(0, 200, 0, b'b' * 50), X)]
sock.q += [(d, Y) for d in segs[2:]]
GLib.run_pending()
q = rxq(r)
watch_alive = any(k == 'io' for (k, f, a, e) in GLib.SOURCES.values())
print('part 2: peer Y sends %d segments (each once); peer X interleaves two segments of its own transfer 0' % len(segs))
print('  expected: Y\'s bundle queued exactly once; socket still watched')
print('  observed: queued=%d, unread datagrams left in socket=%d, io watch alive=%s, escaped=%s'
      % (len(q), len(sock.q), watch_alive, GLib.ERRORS))
if q != [victim] or not watch_alive:
    fail = True

# ---- part 3: same with a truncated datagram (CBOR cut short) from anybody
r, _ = mkagent()
sock = RxSock()
r._recv_wait[sock] = GLib.io_add_watch(sock, GLib.IO_IN, r._sock_recvfrom)
sock.q += [(segs[0], Y), (b'\xa1\x02\x84\x00', X)] + [(d, Y) for d in segs[1:]]
GLib.run_pending()
q = rxq(r)
print('part 3: one truncated datagram from X between Y\'s segments')
print('  observed: queued=%d, unread=%d, escaped=%s' % (len(q), len(sock.q), GLib.ERRORS))
if q != [victim]:
    fail = True

print('DEFECT' if fail else 'ok')
sys.exit(1 if fail else 0)
