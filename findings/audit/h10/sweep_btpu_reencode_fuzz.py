from btpu_h import *
import random, struct
random.seed(5)
def mk_msg():
    t=random.choice([1,2,3,4,5,2,3,4])
    nh=random.choice([0,0,1,2,3])
    hints=b''
    for i in range(nh):
        hl=random.choice([0,1,4,7])
        hints+=bytes([(random.randrange(128)<<1)|(1 if i<nh-1 else 0), hl])+bytes(random.randrange(256) for _ in range(hl))
    if t in (3,4): body=struct.pack('>II',random.randrange(2**32),random.randrange(2**32))+bytes(random.randrange(256) for _ in range(random.choice([0,1,5,20])))
    elif t==5: body=struct.pack('>I',random.randrange(2**32))
    else: body=bytes(random.randrange(256) for _ in range(random.choice([0,1,5,20])))
    flags=(0x8 if nh else 0)|random.choice([0,0,0,1,2,4,7])
    ln=len(hints)+len(body)
    return bytes([t, (flags<<4)|(ln>>16), (ln>>8)&255, ln&255])+hints+body
bad=0
for it in range(3000):
    data=b''.join(mk_msg() for _ in range(random.choice([1,1,2,3])))+b'\0'*random.choice([0,0,1,10])
    try:
        m=MessageSet(data)
        out=bytes(m)
    except Exception as e:
        print('EXC',data.hex(),type(e).__name__,e); bad+=1; continue
    if out!=data:
        bad+=1
        if bad<8: print('DIFF',data.hex(),out.hex()); m.show()
print('bad',bad)
