# shared fixture for the BTP-U demos: real btpu.agent.Agent with a recording fake AF_PACKET socket
import sys, os, logging, types
sys.path[:0]=[os.environ.get('HUNT_STUBS','/tmp/hunt/stubs'), os.environ['HUNT_SRC']]
logging.basicConfig(level=logging.CRITICAL)
logging.getLogger('scapy').setLevel(logging.CRITICAL)
from gi.repository import GLib
import dbus.service
import psutil, macaddress
LOCAL='02:00:00:00:00:01'; PEER='02:00:00:00:00:02'
psutil.net_if_addrs=lambda: {'eth0':[types.SimpleNamespace(family=psutil.AF_LINK,address=LOCAL)]}
from btpu.config import Config
import btpu.agent as ba
from btpu.messages import *
from scapy.layers.l2 import Ether
from scapy.packet import Raw

class FakeEthSock:
    def __init__(self): self.sent=[]; self.rxq=[]
    def send(self, frame): self.sent.append(bytes(frame)); return len(frame)
    def setsockopt(self,*a): pass
    def readable(self): return bool(self.rxq)
    def recvfrom(self,n): return self.rxq.pop(0), ('eth0',0x88b5,0,1,bytes(macaddress.EUI48(PEER)))
    def getsockname(self): return ('eth0',0x88b5,0,1,bytes(macaddress.EUI48(LOCAL)))
    def __hash__(self): return id(self)

def mkagent(**cfg):
    GLib.SOURCES.clear(); GLib.ERRORS.clear(); dbus.service.EMITTED.clear()
    c=Config(node_id='dtn://me/', **cfg)
    a=ba.Agent(c, bus_kwargs=dict(conn=None, object_path='/b'))
    s=FakeEthSock()
    ch=ba.EthernetChannel(local_if='eth0', peer_address=macaddress.EUI48(PEER), local_address=macaddress.EUI48(LOCAL))
    a._plain_sock[ch.key]=s
    return a,s

def send(a, data):
    return a.send_bundle_data(list(data), {'address':PEER, 'local_if':'eth0'})

def payloads(s):
    """BTP-U octets of each frame handed to the socket"""
    return [bytes(Ether(f).payload) for f in s.sent]

def rxchan(peer=PEER):
    return ba.EthernetChannel(local_if='eth0', peer_address=macaddress.EUI48(peer), local_address=macaddress.EUI48(LOCAL))

def rxq(a):
    return [a.recv_bundle_pop_data(b) for b in list(a.recv_bundle_get_queue())]
