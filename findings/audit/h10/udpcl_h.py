# shared fixture for the UDPCL demos: real udpcl.agent.Agent, fake socket, hand-cranked clock
import sys, os, logging, ipaddress, socket, time
sys.path[:0]=[os.environ.get('HUNT_STUBS','/tmp/hunt/stubs'), os.environ['HUNT_SRC']]
logging.basicConfig(level=logging.CRITICAL)
from gi.repository import GLib
import dbus.service
import cbor2
from udpcl.config import Config
import udpcl.agent as ua

class FakeUdpSock:
    family=socket.AF_INET
    def __init__(self): self.sent=[]
    def setsockopt(self,*a): pass
    def sendmsg(self, bufs, anc, flags, addr): self.sent.append(b''.join(bufs)); return sum(map(len,bufs))
    def readable(self): return False
    def __hash__(self): return id(self)

_now=[10**12]
def _mono(): return _now[0]
time.monotonic_ns=_mono

def mkagent(**cfg):
    GLib.SOURCES.clear(); GLib.ERRORS.clear(); dbus.service.EMITTED.clear()
    c=Config(node_id='dtn://me/', **cfg)
    a=ua.Agent(c, bus_kwargs=dict(conn=None, object_path='/u'))
    s=FakeUdpSock()
    a._plain_sock[ua.Conversation().key]=s   # wildcard conversation: every send uses the fake socket
    return a,s

def crank(seconds=100, step_ms=100):
    """run idle work and fire the pacing timer with an advancing clock"""
    GLib.run_pending()
    for _ in range(int(seconds*1000/step_ms)):
        _now[0]+=step_ms*10**6
        if not any(k=='timeout' for (k,f,a,e) in GLib.SOURCES.values()): break
        GLib.fire_timeouts(); GLib.run_pending()

def conv(addr='10.0.0.9', port=4556):
    return ua.Conversation(family=socket.AF_INET, peer_address=ipaddress.ip_address(addr), peer_port=port,
                           local_address=ipaddress.ip_address('10.0.0.1'), local_port=4556)

def send(a, data, address='10.0.0.9'):
    return a.send_bundle_data(list(data), {'address':address})

def bundle(n, salt=0):
    """a syntactically valid BPv7 bundle of exactly n octets (n>=48)"""
    from io import BytesIO
    prim=cbor2.dumps([7,0,0,[1,'//a/b'],[1,'//c/d'],[1,0],[0,0],1000])
    for plen in range(max(0,n-60), n):
        b=b'\x9f'+prim+cbor2.dumps([1,1,0,0,bytes((i*7+3+salt)%251 for i in range(plen))])+b'\xff'
        if len(b)==n: return b
    raise ValueError(n)

def rxq(a):
    return [a.recv_bundle_pop_data(b) for b in list(a.recv_bundle_get_queue())]
