from btpu_h import *
import random, struct
random.seed(7)
def mk_msg():
    t=random.choice([1,2,3,4,5,2,3,4])
    nh=random.choice([0,0,1,2,3])
    hints=[]; hb=b''
    for i in range(nh):
        hl=random.choice([0,1,4,7])
        hd=bytes(random.randrange(256) for _ in range(hl))
        ht=random.randrange(128)
        hints.append((ht,hd)); hb+=bytes([(ht<<1)|(1 if i<nh-1 else 0), hl])+hd
    if t in (3,4): body=struct.pack('>II',random.randrange(2**32),random.randrange(2**32))+bytes(random.randrange(256) for _ in range(random.choice([0,1,5,20])))
    elif t==5: body=struct.pack('>I',random.randrange(2**32))
    else: body=bytes(random.randrange(256) for _ in range(random.choice([0,1,5,20])))
    flags=(0x8 if nh else 0)
    ln=len(hb)+len(body)
    return (t,hints,body), bytes([t, (flags<<4)|(ln>>16), (ln>>8)&255, ln&255])+hb+body
bad=0
for it in range(3000):
    ms=[mk_msg() for _ in range(random.choice([1,1,2,3]))]
    data=b''.join(m[1] for m in ms)+b'\0'*random.choice([0,0,1,10])
    m=MessageSet(data)
    got=[(x.msg_type,[(h.hint_type,bytes(h.payload)) for h in x.hints],bytes(x.payload)) for x in m.msgs]
    exp=[x[0] for x in ms]
    if got!=exp:
        bad+=1
        if bad<6: print('DIFF',data.hex()); print(' exp',exp); print(' got',got)
print('bad',bad)
