''' C15: "Under TLS the session is established only if no identifier presented in
the peer certificate contradicts the peer's address, DNS name or announced node ID".

The only production path for an outgoing contact is tcpcl.agent.Agent.connect(address, port)
(D-Bus method, init_connect, bp.cla).  It resolves the name and hands the handler
toaddr=(str(<resolved IP>), port); Messenger then finds peer_name == socket peer
address and sets peer_dnsid=None.  The DNS-ID comparison of merge_session_params is
therefore dead on this path: the node dials "localhost", the answering server shows
a CA-signed certificate whose only host identifier is DNS:evil.example (no IP SAN;
URI dtn://server/ matches the announced node ID) and the session is established.

Real Agent + ContactHandler, real loopback TCP, real TLS, testpki CA (the rogue
certificate is signed with testpki/ca.key in a temp dir).
'''
import sys, os, ssl, socket, threading, tempfile, datetime, time
import tlsrig as R
from tlsrig import GLib, dbus, messages, contact, Config, PKI
from cryptography import x509
from cryptography.x509.oid import NameOID
from cryptography.hazmat.primitives import hashes, serialization
from cryptography.hazmat.primitives.asymmetric import rsa
import tcpcl.agent

if R.ensure_match_hostname():
    print('note: Python %d.%d has no ssl.match_hostname; no-op restored (see demo_tls_no_contact_failure.py)' % sys.version_info[:2])

# --- a CA-signed certificate for DNS:evil.example + URI:dtn://server/ ----------------
tmp = tempfile.mkdtemp()
ca_cert = x509.load_pem_x509_certificate(open(os.path.join(PKI, 'ca.crt'), 'rb').read())
ca_key = serialization.load_pem_private_key(open(os.path.join(PKI, 'ca.key'), 'rb').read(), None)
key = rsa.generate_private_key(65537, 2048)
now = datetime.datetime.now(datetime.timezone.utc)
cert = (x509.CertificateBuilder()
        .subject_name(x509.Name([x509.NameAttribute(NameOID.COMMON_NAME, 'evil')]))
        .issuer_name(ca_cert.subject).public_key(key.public_key())
        .serial_number(x509.random_serial_number())
        .not_valid_before(now - datetime.timedelta(days=1)).not_valid_after(now + datetime.timedelta(days=30))
        .add_extension(x509.SubjectAlternativeName([
            x509.DNSName('evil.example'), x509.UniformResourceIdentifier('dtn://server/')]), False)
        .sign(ca_key, hashes.SHA256()))
crt_f = os.path.join(tmp, 'evil.crt'); key_f = os.path.join(tmp, 'evil.key')
open(crt_f, 'wb').write(cert.public_bytes(serialization.Encoding.PEM))
open(key_f, 'wb').write(key.private_bytes(serialization.Encoding.PEM, serialization.PrivateFormat.TraditionalOpenSSL,
                                          serialization.NoEncryption()))

# --- the answering server (scripted) ----------------------------------------------------
lsock = socket.socket(); lsock.bind(('127.0.0.1', 0)); lsock.listen(1)
port = lsock.getsockname()[1]
srv = {}
def server():
    try:
        raw, _ = lsock.accept()
        got = b''
        while len(got) < 6:
            got += raw.recv(6 - len(got))
        raw.sendall(bytes(contact.Head() / contact.ContactV4(flags=1)))
        ctx = ssl.SSLContext(ssl.PROTOCOL_TLS_SERVER)
        ctx.load_cert_chain(crt_f, key_f)
        tls = ctx.wrap_socket(raw, server_side=True)
        tls.settimeout(2)
        srv['rx'] = tls.recv(65536)                      # SESS_INIT of the node
        tls.sendall(bytes(messages.MessageHead() / messages.SessionInit(nodeid_data='dtn://server/')))
        time.sleep(0.8)
    except Exception as err:
        srv['error'] = err
th = threading.Thread(target=server, daemon=True); th.start()

# --- the node under test ------------------------------------------------------------------
GLib.SOURCES.clear(); GLib.ERRORS.clear(); dbus.service.EMITTED.clear()
cfg = Config(tls_enable=True, require_tls=True, node_id='dtn://client/',
             tls_ca_file=os.path.join(PKI, 'ca.crt'),
             tls_cert_file=os.path.join(PKI, 'client-transport.crt'),
             tls_key_file=os.path.join(PKI, 'client-transport.key'))
cfg._bus_conn = object()
agent = tcpcl.agent.Agent(cfg, bus_kwargs=dict(conn=None, object_path='/agent'))
path = agent.connect('localhost', port)                   # the user dials a NAME
hdl = agent.handler_for_path(path)
print('dialled "localhost"; handler was given toaddr =', hdl._to, ' peer_name =', repr(hdl._peer_name))
R.crank(until=lambda: hdl._state in ('established', 'ending') or not th.is_alive(), timeout=5)
if 'error' in srv:
    print('server side saw:', repr(srv['error']))
states = [a[0] for n, a in dbus.service.EMITTED if n == 'session_state_changed']
params = dict(hdl.get_session_parameters())
print('state changes:', states, ' errors:', GLib.ERRORS)
print('session parameters:', {k: params.get(k) for k in ('peer_nodeid', 'peer_dnsid', 'peer_ipaddrid', 'authn_nodeid', 'authn_dnsid', 'authn_ipaddrid')})
print('certificate host identifiers: DNS:evil.example (no IP SAN)')
print('expected: DNS-ID evil.example contradicts the dialled name localhost -> SESS_TERM(contact failure), not established')
print('observed: established =', 'established' in states, '; peer_dnsid known to the handler =', params.get('peer_dnsid'))
if 'established' in states and hdl._peer_name != 'localhost':
    print('DEFECT: the dialled DNS name never reaches the certificate check')
    sys.exit(1)
print('no defect shown'); sys.exit(0)
