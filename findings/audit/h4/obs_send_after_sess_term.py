''' Observation (no clause of C18 is strictly violated, see REPORT.md): a transfer
queued by send_bundle_data() after the peer's SESS_TERM was answered is accepted,
can never start (_process_queue refuses once _in_term) and is never flushed
(recv_sess_term already ran); it keeps is_sess_idle() false for ever, so
_check_sess_term never closes the connection.
Exit 1 when the hang shows.
'''
import sys
import tcpcl_harness as H
from tcpcl_harness import GLib, dbus, messages
A, B, sa, sb = H.established()
for i, (k, f, a, e) in list(GLib.SOURCES.items()):          # freeze A: this script plays the peer by hand
    if getattr(f, '__self__', None) is A:
        GLib.SOURCES.pop(i)
dbus.service.EMITTED.clear()
B.send_bundle_data(b'x' * 10); GLib.run_pending()               # transfer 1 sent, awaiting ack
H.inject(sb, messages.MessageHead() / messages.SessionTerm(reason=0)); GLib.run_pending()
print('after peer SESS_TERM: state', B._state, 'idle', bool(B.is_sess_idle()))
print('send_bundle_data() in state "ending" ->', B.send_bundle_data(b'y' * 5)); GLib.run_pending()
H.inject(sb, messages.MessageHead() / messages.TransferAck(transfer_id=1, flags=3, length=10)); GLib.run_pending()
ev = [(n, a) for n, a in dbus.service.EMITTED if 'send_bundle' in n]
print('signals:', ev)
print('state', B._state, ' idle', bool(B.is_sess_idle()), ' closed', sb.closed, ' send queue', list(B.send_bundle_get_queue()),
      ' pending sources', [(k, f.__name__) for k, f, a, e in GLib.SOURCES.values()])
stuck = (not sb.closed) and list(B.send_bundle_get_queue()) == ['2'] and not any(a[0] == '2' for n, a in ev)
print('expected: transfer 2 refused or finished("session terminating"), connection closed after the last ack')
print('observed: stuck =', stuck)
sys.exit(1 if stuck else 0)
