''' C15: under TLS, a peer WITHOUT the identifier that is required (no client
certificate at all; the server context uses CERT_OPTIONAL so the handshake
succeeds) is not answered with SESS_TERM(contact failure).  The SESS_INIT handler
raises instead, AFTER the passive side has sent its SESS_INIT and set _in_sess,
so the connection stays up, un-terminated, and the transfer of a bundle queued
locally is STARTED towards the unauthenticated peer (send_bundle_started is
signalled and an XFER_SEGMENT START goes out; it then stalls for ever because the
segment size was never negotiated).

Run 1: interpreter as it is.  On Python >= 3.12 the exception is AttributeError
       (ssl.match_hostname no longer exists) and hits EVERY TLS session,
       also those with a perfectly matching certificate.
Run 2: (only if run 1 died on match_hostname) with a no-op match_hostname restored:
       x509.load_der_x509_certificate(None) raises TypeError - the missing
       certificate case is not handled on any Python version.
'''
import sys, ssl
import tlsrig as R
from tlsrig import GLib, dbus, messages

SECRET = b'\x9f bundle for dtn://client/ only \xff'

def scenario(client_cert):
    def script(p):
        p.send(messages.MessageHead() / messages.SessionInit(nodeid_data='dtn://client/'))
        p.read_for(1.0)
    lsock, cfg = R.passive_node(require_node_authn=True, require_host_authn=True)
    peer = R.Peer(lsock.getsockname()[1], script, client_cert=client_cert); peer.start()
    B = R.accept(lsock, cfg)
    B.send_bundle_data(SECRET)        # waits in the TX queue for a session
    R.crank(until=lambda: not peer.is_alive(), timeout=5)
    peer.join(1)
    if peer.error:
        print('rig problem:', repr(peer.error)); sys.exit(2)
    sent = R.names(peer.messages())
    # (the segment carries no data only because the segment size was never negotiated)
    started = any(type(p.payload).__name__ == 'TransferSegment' for p in peer.messages())
    states = [a[0] for n, a in dbus.service.EMITTED if n == 'session_state_changed']
    print('  node sent over TLS :', sent)
    print('  node state changes :', states)
    print('  escaped exceptions :', GLib.ERRORS)
    print('  connection closed by node:', peer.closed_by_node, '  _in_sess:', B._in_sess)
    term_cf = 'SessionTerm(reason=4)' in sent
    estab = 'established' in states
    if client_cert:
        print('  expected: the certificate matches address and node ID -> state "established"')
        print('  observed: established=%s, escaped exceptions=%d' % (estab, len(GLib.ERRORS)))
        return not estab
    print('  expected: SESS_TERM(contact failure) [or at least a closed connection], no transfer started')
    print('  observed: contact-failure sent=%s, closed=%s, transfer of the queued bundle started towards the peer (XFER_SEGMENT START)=%s'
          % (term_cf, peer.closed_by_node, started))
    return (not term_cf and not peer.closed_by_node) or started

bad = False
print('Run 1: peer presents NO certificate, interpreter as it is (Python %d.%d)' % sys.version_info[:2])
bad |= scenario(client_cert=False)
if not hasattr(ssl, 'match_hostname'):
    print('Run 1b: peer presents the MATCHING certificate of dtn://client/, interpreter as it is')
    bad |= scenario(client_cert=True)
    R.ensure_match_hostname()
    print('Run 2: peer presents NO certificate, ssl.match_hostname restored as a no-op')
    bad |= scenario(client_cert=False)
if bad:
    print('DEFECT: no contact-failure termination; handler crashed with the session flag set')
    sys.exit(1)
print('no defect shown'); sys.exit(0)
