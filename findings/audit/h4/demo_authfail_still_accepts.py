''' C15: a TLS peer whose certificate CONTRADICTS its announced node ID is told
SESS_TERM(contact failure) -- and is then served as if the session existed.

Real ContactHandler (passive, require_tls, require_node_authn, require_host_authn)
on a real loopback TCP socket with real TLS and the project's testpki.
The peer owns the valid certificate of dtn://client/ but announces dtn://admin/.
'''
import sys, time
import tlsrig as R
from tlsrig import GLib, dbus, messages

shimmed = R.ensure_match_hostname()
if shimmed:
    print('note: Python %d.%d has no ssl.match_hostname; no-op restored (see demo_tls_no_contact_failure.py)' % sys.version_info[:2])

BUNDLE = b'\x9f forged bundle \xff'

def script(p):
    p.send(messages.MessageHead() / messages.SessionInit(nodeid_data='dtn://admin/'))
    p.read_for(0.5)                                   # node answers SESS_INIT + SESS_TERM
    # never reply to the SESS_TERM; just push a bundle
    p.send(messages.MessageHead() / messages.TransferSegment(
        transfer_id=7, flags=messages.TransferSegment.Flag.START | messages.TransferSegment.Flag.END,
        data=BUNDLE))
    p.read_for(0.7)

lsock, cfg = R.passive_node(require_node_authn=True, require_host_authn=True)
peer = R.Peer(lsock.getsockname()[1], script); peer.start()
B = R.accept(lsock, cfg)
R.crank(until=lambda: not peer.is_alive(), timeout=5)
peer.join(1)
if peer.error:
    print('rig problem:', repr(peer.error)); sys.exit(2)

sent = R.names(peer.messages())
states = [a[0] for n, a in dbus.service.EMITTED if n == 'session_state_changed']
fin = [a for n, a in dbus.service.EMITTED if n == 'recv_bundle_finished']
queue = list(B.recv_bundle_get_queue())
print('node sent over TLS     :', sent)
print('node state changes     :', states)
print('callback errors        :', GLib.ERRORS)
print('recv_bundle_finished   :', fin)
print('recv_bundle_get_queue(): ', queue)

term_cf = any(n == 'SessionTerm(reason=4)' for n in sent)
acked = any(n == 'TransferAck' for n in sent)
print()
print('expected: SESS_TERM(contact failure); the session is NOT established, so the XFER_SEGMENT is'
      ' rejected, nothing is acknowledged or announced on D-Bus')
print('observed: contact-failure sent=%s, never "established"=%s, but XFER_ACK sent=%s and bundle delivered=%s'
      % (term_cf, 'established' not in states, acked, bool(fin)))
if fin and acked:
    data = bytes(B.recv_bundle_pop_data(queue[0]))
    print('          popped data == forged bundle:', data == BUNDLE)
    print('DEFECT: peer that failed node authentication delivered a bundle')
    sys.exit(1)
print('no defect shown')
sys.exit(0)
