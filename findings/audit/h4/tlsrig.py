''' Shared rig for the TLS demos: a REAL tcpcl.session.ContactHandler on a real
loopback TCP socket with the real ssl module and the project's own testpki,
driven by the hand-cranked GLib stand-in.  The peer is a scripted TLS client
in a thread (it plays an attacker / misbehaving node).
'''
import os, sys, select, socket, ssl, threading, time
import tcpcl_harness as H          # only for its imports / stubs set-up
from tcpcl_harness import GLib, dbus, Config, ContactHandler, messages, contact

PKI = os.path.join(os.path.dirname(os.environ['HUNT_SRC']), 'testpki')


def crank(until=None, timeout=3.0):
    ''' Run idle sources and io sources whose real socket is ready. '''
    end = time.time() + timeout
    while time.time() < end:
        if until and until():
            return True
        progressed = False
        for i, (kind, func, args, extra) in list(GLib.SOURCES.items()):
            if i not in GLib.SOURCES:
                continue
            if kind == 'idle':
                GLib._dispatch(i); progressed = True
            elif kind == 'io':
                sock, cond = extra
                if sock is None or sock.fileno() < 0:
                    continue
                if cond == GLib.IO_IN:
                    pend = getattr(sock, 'pending', lambda: 0)()
                    r, _, _ = select.select([sock], [], [], 0)
                    if r or pend:
                        GLib._dispatch(i); progressed = True
                elif cond == GLib.IO_OUT:
                    _, w, _ = select.select([], [sock], [], 0)
                    if w:
                        GLib._dispatch(i); progressed = True
        if not progressed:
            time.sleep(0.01)
    return bool(until and until())


def passive_node(**cfg):
    ''' -> (handler, listening port).  The handler is created on accept. '''
    GLib.SOURCES.clear(); GLib.ERRORS.clear(); dbus.service.EMITTED.clear()
    lsock = socket.socket(); lsock.bind(('127.0.0.1', 0)); lsock.listen(1)
    base = dict(
        tls_enable=True, require_tls=True,
        tls_ca_file=os.path.join(PKI, 'ca.crt'),
        tls_cert_file=os.path.join(PKI, 'server-transport.crt'),
        tls_key_file=os.path.join(PKI, 'server-transport.key'),
        node_id='dtn://server/',
    )
    base.update(cfg)
    return lsock, Config(**base)


def accept(lsock, config):
    newsock, fromaddr = lsock.accept()
    hdl = ContactHandler(
        hdl_kwargs=dict(config=config, sock=newsock, fromaddr=fromaddr),
        bus_kwargs=dict(conn=None, object_path='/c/B'))
    hdl.start()
    return hdl


class Peer(threading.Thread):
    ''' Scripted TLS client.  script(peer) runs in the thread. '''

    def __init__(self, port, script, client_cert=True):
        threading.Thread.__init__(self, daemon=True)
        self.port = port; self.script = script; self.client_cert = client_cert
        self.rx = b''; self.error = None; self.sock = None; self.closed_by_node = False

    def run(self):
        try:
            raw = socket.create_connection(('127.0.0.1', self.port))
            raw.sendall(bytes(contact.Head() / contact.ContactV4(flags=1)))
            got = b''
            while len(got) < 6:
                got += raw.recv(6 - len(got))
            self.contact_reply = got
            ctx = ssl.SSLContext(ssl.PROTOCOL_TLS_CLIENT)
            ctx.check_hostname = False
            ctx.load_verify_locations(os.path.join(PKI, 'ca.crt'))
            if self.client_cert:
                ctx.load_cert_chain(os.path.join(PKI, 'client-transport.crt'),
                                    os.path.join(PKI, 'client-transport.key'))
            self.sock = ctx.wrap_socket(raw)
            self.script(self)
        except Exception as err:       # pragma: no cover
            self.error = err

    def send(self, pkt):
        self.sock.sendall(bytes(pkt))

    def read_for(self, secs):
        ''' Collect whatever the node sends during secs. '''
        self.sock.settimeout(0.05)
        end = time.time() + secs
        while time.time() < end:
            try:
                d = self.sock.recv(65536)
            except (socket.timeout, ssl.SSLWantReadError):
                continue
            except OSError:
                self.closed_by_node = True; return
            if not d:
                self.closed_by_node = True; return
            self.rx += d

    def messages(self):
        ''' Decode the TCPCL messages the node sent (after TLS). '''
        out = []; buf = self.rx
        while buf:
            try:
                pkt = messages.MessageHead(buf); enc = bytes(pkt)
            except Exception:
                break
            out.append(pkt); buf = buf[len(enc):]
        return out


def names(pkts):
    return [type(p.payload).__name__ + (('(reason=%s)' % p.payload.reason) if hasattr(p.payload, 'reason') else '') for p in pkts]


def ensure_match_hostname():
    ''' ssl.match_hostname was removed from the standard library in 3.12; the
    project (requires-python >=3.7) still calls it for logging purposes only.
    Restore a no-op so that the code BEHIND that line can be examined. '''
    if not hasattr(ssl, 'match_hostname'):
        ssl.match_hostname = lambda cert, hostname: None
        return True
    return False
