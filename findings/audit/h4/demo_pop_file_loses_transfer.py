''' C18: "popping returns that transfer's data exactly once".
recv_bundle_pop_file() removes the transfer from the receive queue BEFORE it opens
the destination.  If the open fails (missing directory, no permission, a
directory name, empty string ...) the D-Bus caller gets an error, yet the
transfer is gone: it was announced as finished, never returned, and is no longer
listed - its data is returned ZERO times.  Same code in the TCPCL contact and
in the UDPCL agent.
'''
import sys, os, ipaddress, cbor2
import tcpcl_harness as H
from tcpcl_harness import GLib, dbus, messages

BAD = '/nonexistent-dir/bundle.bin'
bad = False

# ---- TCPCL -----------------------------------------------------------------
A, B, sa, sb = H.established()
A.send_bundle_data(b'tcpcl-bundle-data')
GLib.run_pending()
fin = [a for n, a in dbus.service.EMITTED if n == 'recv_bundle_finished']
print('TCPCL finished signals:', fin, ' queue:', list(B.recv_bundle_get_queue()))
bid = fin[0][0]
try:
    B.recv_bundle_pop_file(bid, BAD)
    print('  pop_file unexpectedly worked')
except Exception as err:
    print('  pop_file(%r) -> %s: %s' % (BAD, type(err).__name__, err))
q = list(B.recv_bundle_get_queue())
try:
    data = bytes(B.recv_bundle_pop_data(bid))
except Exception as err:
    data = None
    print('  retry pop_data(%r) -> %s: %r' % (bid, type(err).__name__, err))
print('  expected: failed pop leaves transfer %r queued, retry returns the data' % bid)
print('  observed: queue after failed pop = %s, data returned = %r'
      % (q, data))
if data != b'tcpcl-bundle-data':
    bad = True

# ---- UDPCL -----------------------------------------------------------------
import udpcl.agent as UA
from udpcl.config import Config as UConfig
dbus.service.EMITTED.clear()
U = UA.Agent(UConfig(), bus_kwargs=dict(conn=None, object_path='/u'))
conv = UA.Conversation(peer_address=ipaddress.ip_address('10.0.0.9'), peer_port=4556)
bundle = cbor2.dumps([1, 2, 3])                       # a CBOR array = one bundle message
U._recv_datagram(None, bundle, conv)
fin = [a for n, a in dbus.service.EMITTED if n == 'recv_bundle_finished']
print('UDPCL finished signals:', [(a[0], a[1]) for a in fin], ' queue:', list(U.recv_bundle_get_queue()))
bid = fin[0][0]
try:
    U.recv_bundle_pop_file(bid, BAD)
    print('  pop_file unexpectedly worked')
except Exception as err:
    print('  pop_file(%r) -> %s: %s' % (BAD, type(err).__name__, err))
q = list(U.recv_bundle_get_queue())
try:
    data = bytes(U.recv_bundle_pop_data(bid))
except Exception as err:
    data = None
    print('  retry pop_data(%r) -> %s: %r' % (bid, type(err).__name__, err))
print('  expected: failed pop leaves transfer %r queued, retry returns the data' % bid)
print('  observed: queue after failed pop = %s, data returned = %r' % (q, data))
if data != bundle:
    bad = True

if bad:
    print('DEFECT: a transfer announced as finished is dropped by a failed pop_file; its data is never returned')
    sys.exit(1)
print('no defect shown'); sys.exit(0)
