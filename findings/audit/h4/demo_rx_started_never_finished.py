''' C18, receive side of the TCPCL contact.

Scenario 1 ("a started transfer ... gets exactly one [finished signal] when the
session ends gracefully"): the peer starts transfer 1 (START, no END) and then
starts transfer 2 (START|END).  recv_xfer_data() silently replaces the in-progress
item, so transfer 1 was announced with recv_bundle_started and is never finished -
not when it is dropped and not when the session is then terminated gracefully
(SESS_TERM both ways, both sides idle, connection closed).

Scenario 2 ("the receive queue lists exactly the transfer IDs announced as finished
and not yet popped, popping returns that transfer's data exactly once"): two
complete transfers carry the same transfer ID.  Both are announced as finished,
the queue shows one entry, one pop returns the SECOND one, the first one's data
can never be popped (and stays referenced in _rx_bundles).
'''
import sys
import tcpcl_harness as H
from tcpcl_harness import GLib, dbus, messages
F = messages.TransferSegment.Flag
bad = False

def seg(tid, flags, data):
    return messages.MessageHead() / messages.TransferSegment(transfer_id=tid, flags=flags, data=data)

# ---- scenario 1 ---------------------------------------------------------------
A, B, sa, sb = H.established()
dbus.service.EMITTED.clear()
H.inject(sb, seg(1, F.START, b'first-part-of-1'))
H.inject(sb, seg(2, F.START | F.END, b'whole-2'))
GLib.run_pending()
print('scenario 1: idle after the two segments:', bool(B.is_sess_idle()))
A.terminate(0)
GLib.run_pending()
ev = [(n, a[0]) + tuple(a[2:]) for n, a in dbus.service.EMITTED if n.startswith('recv_bundle')]
states = [a[0] for n, a in dbus.service.EMITTED if n == 'session_state_changed']
print('  recv signals :', ev)
print('  state changes:', states, ' sockets closed:', sa.closed, sb.closed, ' errors:', GLib.ERRORS)
started = [e[1] for e in ev if e[0] == 'recv_bundle_started']
finished = [e[1] for e in ev if e[0] == 'recv_bundle_finished']
print('  expected: every started transfer %s has exactly one finished signal once the session has ended gracefully' % started)
print('  observed: finished =', finished)
if sa.closed and sb.closed and sorted(started) != sorted(finished):
    print('  -> transfer(s) %s started, never finished' % sorted(set(started) - set(finished)))
    bad = True

# ---- scenario 2 ---------------------------------------------------------------
A, B, sa, sb = H.established()
dbus.service.EMITTED.clear()
H.inject(sb, seg(5, F.START | F.END, b'FIRST'))
H.inject(sb, seg(5, F.START | F.END, b'SECOND'))
GLib.run_pending()
fin = [a for n, a in dbus.service.EMITTED if n == 'recv_bundle_finished']
queue = list(B.recv_bundle_get_queue())
print('scenario 2: finished signals:', fin)
print('  recv_bundle_get_queue():', queue)
popped = []
for bid, _len, _res in fin:
    try:
        popped.append(bytes(B.recv_bundle_pop_data(bid)))
    except Exception as err:
        popped.append('%s(%s)' % (type(err).__name__, err))
print('  expected (since the repair: a START with an ID still held is rejected): announcements and poppable transfers agree')
print('  observed: pops ->', popped, '; items still held but unreachable:', [i.file.getvalue() for i in B._rx_bundles])
if len(fin) != len(popped) or any(not isinstance(x, bytes) for x in popped) or B._rx_bundles:
    bad = True

if bad:
    print('DEFECT shown'); sys.exit(1)
print('no defect shown'); sys.exit(0)
