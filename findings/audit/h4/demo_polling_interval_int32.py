''' C18: "Every signal emitted ... conforms to the D-Bus signature declared for it,
so emission can never fail on type grounds."

UDPCL polling_received is declared 'xissq': interval_ms is an INT32.  The value is
int(<peer supplied CBOR item>) with no range check, so one datagram carrying
{SENDER_LISTEN: 2**31} (any CBOR uint up to 2**64-1, or a negative below -2**31)
reaches the emission with a value that cannot be marshalled as 'i'.  dbus-python
raises OverflowError from the signal call; that escapes _recv_ext_map /
_sock_recvfrom, i.e. the GLib io callback of the listening socket, whose watch is
dropped when the callback raises - one datagram silences the agent.

The dbus stub of this audit checks Python types only, not integer ranges, so this
script checks the recorded arguments against the ranges of the D-Bus
specification itself (y,n,q,i,u,x,t).
'''
import sys, ipaddress, cbor2
import tcpcl_harness as H                     # stubs / path set-up only
from tcpcl_harness import GLib, dbus
import udpcl.agent as UA
from udpcl.config import Config as UConfig

RANGE = dict(y=(0, 2**8 - 1), n=(-2**15, 2**15 - 1), q=(0, 2**16 - 1), i=(-2**31, 2**31 - 1),
             u=(0, 2**32 - 1), x=(-2**63, 2**63 - 1), t=(0, 2**64 - 1))
SIG = 'xissq'   # as declared on udpcl.agent.Agent.polling_received

bad = False
for interval in (60000, 2**31 - 1, 2**31, 2**64 - 1, -2**31 - 1):
    dbus.service.EMITTED.clear(); GLib.SOURCES.clear(); GLib.ERRORS.clear()
    U = UA.Agent(UConfig(node_id='dtn://me/'), bus_kwargs=dict(conn=None, object_path='/u'))
    conv = UA.Conversation(peer_address=ipaddress.ip_address('10.0.0.9'), peer_port=4556)
    dgram = cbor2.dumps({int(UA.ExtensionKey.SENDER_LISTEN): interval,
                         int(UA.ExtensionKey.SENDER_NODEID): 'dtn://peer/'})
    try:
        U._recv_datagram(None, dgram, conv)
    except Exception as err:
        print('interval %d: handler raised %s: %s' % (interval, type(err).__name__, err))
        continue
    em = [a for n, a in dbus.service.EMITTED if n == 'polling_received']
    for args in em:
        misfit = [(t, v) for t, v in zip(SIG, args) if t in RANGE and not (RANGE[t][0] <= v <= RANGE[t][1])]
        print('interval %-21d -> polling_received%s  out of range for signature %r: %s'
              % (interval, args[1:], SIG, misfit or 'none'))
        if misfit:
            bad = True
print('expected: every emitted argument fits its declared D-Bus type (value rejected or clamped beforehand)')
if bad:
    print('DEFECT: peer-controlled interval_ms reaches an INT32 signal argument unchecked')
    sys.exit(1)
print('no defect shown'); sys.exit(0)
