#!/usr/bin/env python
''' C06: a fragment that starts at the same offset as an earlier one but is
longer is thrown away as a "duplicate", so a covering set never reassembles.

Agent.recv_bundle() suppresses duplicates by BundleContainer.bundle_ident(),
which for a fragment is (source, time, seqno, fragment offset, total length) -
the fragment's own payload length is not part of it.  Two different
fragmentations of the same bundle (e.g. two copies that crossed links with
different MTUs, both start at offset 0) therefore collide: whichever
fragment with a given offset arrives second never reaches
Fragment._reassemble(), although its extra octets are needed.

Run: HUNT_SRC=/tmp/hunt/w6/src PYTHONPATH=/tmp/hunt:/tmp/hunt/stubs:/tmp/hunt/w6/src /venv/bin/python demo_same_offset_dropped.py
'''
import itertools
import re
import sys
from bp_harness import *
from bp.util import ChainStep

PAYLOAD = bytes((i * 5 + 1) & 0xff for i in range(30))


def mkfrag(off, ln):
    b = Bundle()
    b.primary = PrimaryBlock(
        bundle_flags=PrimaryBlock.Flag.IS_FRAGMENT, destination='dtn://me/svc', source='dtn://src/',
        report_to='dtn:none', create_ts=Timestamp(dtntime=1000, seqno=1), lifetime=10000, crc_type=2,
        fragment_offset=off, total_app_data_len=len(PAYLOAD))
    b.blocks = [CanonicalBlock(type_code=1, block_num=1, crc_type=2, btsd=PAYLOAD[off:off + ln])]
    b.fill_fields()
    b.update_all_crc()
    return bytes(b)


def mkrx():
    agent, _cl = mkagent('dtn://me/', rx=[RxRouteItem(eid_pattern=re.compile('dtn://me/.*'), action='deliver')])
    delivered = []

    def probe(ctr):
        # stands for an application step of the receive chain
        if 'deliver' in ctr.actions:
            delivered.append(bytes(ctr.block_num(1).getfieldval('btsd')))

    agent._rx_chain.append(ChainStep(order=25, name='probe application', action=probe))
    agent._rx_chain.sort()
    return agent, delivered


def deliver_in_order(frags):
    agent, delivered = mkrx()
    for (off, ln) in frags:
        # the entry point used by every convergence layer adaptor
        agent._cl_recv_bundle_finish('fake')(mkfrag(off, ln), {})
        GLib.run_pending()
    table = {k: repr(v.valid) for (k, v) in agent._app['fragment']._reassembly.items()}
    return delivered, table, GLib.ERRORS[:]


def main():
    failed = False
    print('original payload: %d octets; fragments are (offset, length)' % len(PAYLOAD))
    print('expected: as soon as the received fragments cover [0,30) exactly one bundle with the original payload is delivered')

    # control: same coverage without a shared offset
    for frags in itertools.permutations([(0, 10), (5, 15), (20, 10)]):
        delivered, table, errors = deliver_in_order(frags)
        ok = delivered == [PAYLOAD] and not errors
        if not ok:
            print('  control %s: delivered %d' % (frags, len(delivered)))
            failed = True
    print('control (overlapping, distinct offsets, all 6 orders): reassembled every time' if not failed else 'control FAILED')

    # two fragmentations of the same bundle: {[0,10),[10,30)} and {[0,20),[20,30)}
    cover = [(0, 10), (0, 20), (20, 10)]
    for frags in itertools.permutations(cover):
        delivered, table, errors = deliver_in_order(frags)
        ok = delivered == [PAYLOAD] and not errors
        print('  arrival order %-28s -> delivered %d bundle(s); reassembly table afterwards: %s' % (frags, len(delivered), table or 'empty'))
        if not ok:
            print('    DEFECT: union of the received fragments is [0,30) but nothing was delivered'
                  ' (the later offset-0 fragment was ignored as already seen)')
            failed = True
    print('RESULT:', 'DEFECT SHOWN' if failed else 'no defect')
    return 1 if failed else 0


if __name__ == '__main__':
    sys.exit(main())
