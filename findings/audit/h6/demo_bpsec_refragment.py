#!/usr/bin/env python
''' C05: with the security policy on, every fragment is signed again and
leaves the node larger than the route MTU.

The transmit chain is  0 routing, 10 BPSec integrity, 11 BPSec
confidentiality, 20 fragment creation.  Fragment._create() sizes each fragment
to fit the MTU and then hands it to Agent.send_bundle(), i.e. through the
whole chain again.  Bpsec._apply_bib() has no idea the bundle is a fragment
(or that it already carries a BIB over block 1) and adds a new BIB to every
fragment; at step 20 the bundle is "an existing fragment" and is sent as is.

Configuration: node dtn://client/ with sign_key_file = testpki/client-sign.key
(the only thing needed to switch the integrity policy on).

Run: HUNT_SRC=/tmp/hunt/w6/src PYTHONPATH=/tmp/hunt:/tmp/hunt/stubs:/tmp/hunt/w6/src /venv/bin/python demo_bpsec_refragment.py
'''
import os
import re
import sys
from bp_harness import *
import bp.app.bpsec  # registers the 'bpsec' application (as bp.cmd does)

PKI = os.path.join(os.path.dirname(os.environ['HUNT_SRC']), 'testpki')
MTU = 600
PAYLOAD = bytes(range(256)) * 4
BIB_TYPE = 11


def mk(**cfg):
    GLib.SOURCES.clear()
    GLib.ERRORS.clear()
    c = Config(node_id='dtn://client/', **cfg)
    c._bus_conn = FakeConn()
    c.tx_route_table = [TxRouteItem(eid_pattern=re.compile('.*'), next_nodeid='dtn://far/', cl_type='fake', mtu=MTU)]
    a = bp.agent.Agent(c, bus_kwargs=dict(conn=None, object_path='/a'))
    cl = FakeCL()
    a._cl_agent['fake'] = cl
    return a, cl


def send(**cfg):
    agent, cl = mk(**cfg)
    ctr = BundleContainer()
    ctr.bundle.primary = PrimaryBlock(destination='dtn://far/x', crc_type=2)
    ctr.bundle.blocks = [CanonicalBlock(type_code=1, block_num=1, crc_type=2, btsd=PAYLOAD)]
    agent.send_bundle(ctr)
    GLib.run_pending()
    return cl.sent, GLib.ERRORS[:]


def examine(label, **cfg):
    sent, errors = send(**cfg)
    print('--- %s: %d payload octets over a route with MTU %d' % (label, len(PAYLOAD), MTU))
    problems = []
    if errors:
        problems.append('escaped exceptions %s' % errors)
    for data in sent:
        b = Bundle(data)
        p = b.primary
        blks = [(int(x.type_code), int(x.block_num), int(x.block_flags), len(x.btsd)) for x in b.blocks]
        print('  sent %4d octets offset=%-4s total=%s blocks(type,num,flags,len)=%s' % (len(data), p.fragment_offset, p.total_app_data_len, blks))
        if len(data) > MTU:
            problems.append('fragment at offset %s encodes to %d > MTU %d' % (p.fragment_offset, len(data), MTU))
        bibs = [x for x in b.blocks if x.type_code == BIB_TYPE]
        if p.fragment_offset == 0 and len(bibs) > 1:
            problems.append('first fragment carries %d BIBs over the payload block (the original had 1)' % len(bibs))
        if p.fragment_offset != 0:
            extra = [x for x in b.blocks if x.type_code != 1 and not (x.block_flags & CanonicalBlock.Flag.REPLICATE_IN_FRAGMENT)]
            if extra:
                problems.append('fragment at offset %s carries %d extension block(s) not marked replicate: types %s' % (
                    p.fragment_offset, len(extra), [int(x.type_code) for x in extra]))
    return problems


def main():
    print('expected: every transmitted fragment <= MTU; later fragments carry only replicate-flagged extension blocks')
    probs = examine('control, security policy off')
    print('  control problems:', probs or 'none')
    failed = bool(probs)
    probs = examine('security policy on (sign_key_file configured)', sign_key_file=os.path.join(PKI, 'client-sign.key'))
    for p in probs:
        print('  DEFECT:', p)
    failed |= bool(probs)
    print('RESULT:', 'DEFECT SHOWN' if failed else 'no defect')
    return 1 if failed else 0


if __name__ == '__main__':
    sys.exit(main())
