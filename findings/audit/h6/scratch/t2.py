import re, sys, itertools
from t1 import *
bad=0
def check(paylen, mtu, crc, blocks=(), flags=0):
    global bad
    a,cl,payload,err=run(paylen,mtu,crc,flags,blocks)
    if GLib.ERRORS: print('ERR',paylen,mtu,crc,GLib.ERRORS); bad+=1
    if err is not None:
        if cl.sent: print('raised but sent',paylen,mtu,crc,err); bad+=1
        return 'raise'
    sizes=[len(d) for d in cl.sent]
    if any(s>mtu for s in sizes):
        print('OVERSIZE',paylen,mtu,crc,sizes); bad+=1
    bs=[Bundle(d) for d in cl.sent]
    if len(bs)==1 and not bs[0].primary.bundle_flags & 1:
        if bs[0].blocks[-1].btsd!=payload: print('payload altered'); bad+=1
        return 'single'
    off=0
    for b in bs:
        if not b.primary.bundle_flags&1: print('noflag'); bad+=1
        if b.primary.fragment_offset!=off or b.primary.total_app_data_len!=paylen:
            print('TILE',paylen,mtu,crc,b.primary.fragment_offset,off); bad+=1
        pl=b.blocks[-1].btsd
        if payload[off:off+len(pl)]!=pl: print('DATA',paylen,mtu,crc); bad+=1
        off+=len(pl)
        if b.check_all_crc(): print('CRC'); bad+=1
    if off!=paylen: print('INCOMPLETE',paylen,mtu,crc,off); bad+=1
    return len(bs)
for crc in (0,1,2):
    for paylen in (0,1,22,23,24,25,100,254,255,256,257,300,1000):
        for mtu in list(range(40,140))+[254,255,256,257,258,259,260,300,301,302,303]:
            r=check(paylen,mtu,crc)
for crc in (0,2):
  for paylen in (65534,65535,65536,65537,70000):
    for mtu in (100,1000,65535,65536,65537,65580,65590,65600):
        r=check(paylen,mtu,crc)
print('bad',bad)
