import itertools
from t3 import *
bad=0
def mkblocks(crc):
    return [CanonicalBlock(type_code=10,block_num=2,crc_type=crc)/HopCountBlock(limit=30,count=23),
            CanonicalBlock(type_code=200,block_num=3,block_flags=1,crc_type=crc,btsd=b'replicated'),
            CanonicalBlock(type_code=201,block_num=7,block_flags=0,crc_type=0,btsd=b'notrepl'),
            CanonicalBlock(type_code=202,block_num=9,block_flags=0x11,crc_type=crc,btsd=b'r'*30)]
for crc in (0,1,2):
  for paylen in (0,1,23,24,255,256,1000,65536):
    for mtu in list(range(100,330,1))+[1000,65536,65700]:
      for flags in (0,4):
        a,cl,payload,data=fwd(paylen,mtu,crc=crc,flags=flags,blocks=mkblocks(crc))
        if GLib.ERRORS: print('ERR',GLib.ERRORS); bad+=1
        bs=[Bundle(d) for d in cl.sent]
        if not bs: continue
        if flags==4 or len(bs)==1:
            if len(bs)!=1 or bs[0].primary.bundle_flags&1 or bytes(bs[0].blocks[-1].btsd)!=payload: print('NF',paylen,mtu,crc,flags,len(bs)); bad+=1
            if flags==0 and len(cl.sent[0])>mtu: print('OVERSINGLE'); bad+=1
            continue
        off=0
        for i,(d,b) in enumerate(zip(cl.sent,bs)):
            if len(d)>mtu: print('OVER',paylen,mtu,crc,len(d)); bad+=1
            p=b.primary
            if (p.source,p.create_ts.seqno,p.lifetime,p.fragment_offset,p.total_app_data_len)!=('dtn://src/',5,10000,off,paylen): print('ID'); bad+=1
            types=[(x.type_code,x.block_num) for x in b.blocks]
            exp=[(10,2),(200,3),(201,7),(202,9),(6,4),(7,5),(1,1)] if i==0 else [(200,3),(202,9),(1,1)]
            if types!=exp: print('BLK',types); bad+=1
            pl=bytes(b.blocks[-1].btsd)
            if pl!=payload[off:off+len(pl)] or not pl: print('DATA'); bad+=1
            off+=len(pl)
            if b.check_all_crc(): print('CRC'); bad+=1
        if off!=paylen: print('INC'); bad+=1
print('bad',bad)
