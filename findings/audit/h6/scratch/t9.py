from t1 import *
blocks=lambda:[CanonicalBlock(type_code=201,block_num=7,block_flags=0,crc_type=0,btsd=b'x'*50)]
a,cl,payload,err=run(30,10**6,crc=0,blocks=blocks())
orig=len(cl.sent[0]); P=30
print('orig',orig)
for mtu in range(orig-P, orig):
    a,cl,payload,err=run(30,mtu,crc=0,blocks=blocks())
    print(mtu, 'raise' if err else [len(d) for d in cl.sent], 'min possible first fragment', orig-P-2+1+1+2 +1)
