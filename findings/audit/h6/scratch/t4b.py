import traceback, logging
from t4 import *
logging.getLogger().setLevel(logging.DEBUG)
a,cl=mk('dtn://client/', 600, sign_key_file=PKI+'/client-sign.key', sign_cert_file=PKI+'/client-sign.crt', integrity_include_chain=False)
ctr=BundleContainer()
ctr.bundle.primary=PrimaryBlock(destination='dtn://far/x',crc_type=2)
ctr.bundle.blocks=[CanonicalBlock(type_code=1,block_num=1,crc_type=2,btsd=bytes(range(256))*4)]
try:
    a.send_bundle(ctr)
except Exception as e: traceback.print_exc()
