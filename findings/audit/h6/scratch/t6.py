import itertools, random
from t5 import *
payload=bytes((i*5+1)&0xff for i in range(50))
bad=0
cuts=[(0,10),(10,15),(25,25)]
for perm in itertools.permutations(cuts):
    a,delivered=mkrx()
    for i,(off,ln) in enumerate(perm):
        feed(a,mkfrag(payload,off,ln))
        feed(a,mkfrag(payload,off,ln))  # dup
        feed(a,mkfrag(payload[::-1],off,ln,seq=2)) # other bundle
        if i<2 and delivered: print('early'); bad+=1
    if [bytes(c.block_num(1).btsd) for c in delivered]!=[payload,payload[::-1]] : print('BAD',perm,len(delivered)); bad+=1
    if a._app['fragment']._reassembly: print('left',a._app['fragment']._reassembly)
# overlapping with distinct offsets
for perm in itertools.permutations([(0,20),(15,20),(30,20),(5,40)]):
    a,delivered=mkrx()
    for off,ln in perm: feed(a,mkfrag(payload,off,ln))
    if [bytes(c.block_num(1).btsd) for c in delivered]!=[payload]: print('BAD2',perm,len(delivered)); bad+=1
    if a._app['fragment']._reassembly: print('left',perm,[r.valid for r in a._app['fragment']._reassembly.values()])
print('bad',bad,GLib.ERRORS)
