import re, sys, os
from bp_harness import *
import bp.app.bpsec
SRC=os.environ['HUNT_SRC']
PKI=os.path.join(os.path.dirname(SRC),'testpki')
def mk(node, mtu, rx=(), **cfg):
    GLib.SOURCES.clear(); GLib.ERRORS.clear()
    c=Config(node_id=node, **cfg); c._bus_conn=FakeConn()
    c.rx_route_table=list(rx); c.tx_route_table=[TxRouteItem(eid_pattern=re.compile('.*'), next_nodeid='dtn://far/', cl_type='fake', mtu=mtu)]
    a=bp.agent.Agent(c, bus_kwargs=dict(conn=None,object_path='/a'))
    cl=FakeCL(); a._cl_agent['fake']=cl
    return a,cl
def show(cl):
    for d in cl.sent:
        b=Bundle(d)
        p=b.primary
        print(len(d), int(p.bundle_flags), p.source, p.create_ts.dtntime, p.create_ts.seqno, p.lifetime, p.fragment_offset, p.total_app_data_len, [ (x.type_code,x.block_num,int(x.block_flags),len(x.btsd)) for x in b.blocks], b.check_all_crc())
if __name__=='__main__':
    mtu=int(sys.argv[1])
    a,cl=mk('dtn://client/', mtu, sign_key_file=PKI+'/client-sign.key')
    ctr=BundleContainer()
    ctr.bundle.primary=PrimaryBlock(destination='dtn://far/x',crc_type=2)
    ctr.bundle.blocks=[CanonicalBlock(type_code=1,block_num=1,crc_type=2,btsd=bytes(range(256))*4)]
    try:
        a.send_bundle(ctr)
    except Exception as e: print('EXC',e)
    GLib.run_pending()
    print(GLib.ERRORS)
    show(cl)
