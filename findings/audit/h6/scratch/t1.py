import re, sys
from bp_harness import *
def parse(data):
    b=Bundle(data); return b
def run(paylen, mtu, crc=2, flags=0, blocks=()):
    a,cl=mkagent('dtn://me/', tx=[TxRouteItem(eid_pattern=re.compile('.*'), next_nodeid='dtn://far/', cl_type='fake', mtu=mtu)])
    ctr=BundleContainer()
    ctr.bundle.primary=PrimaryBlock(bundle_flags=flags,destination='dtn://far/x',crc_type=crc)
    payload=bytes((i*7+3)&0xff for i in range(paylen))
    ctr.bundle.blocks=list(blocks)+[CanonicalBlock(type_code=1,block_num=1,crc_type=crc,btsd=payload)]
    err=None
    try:
        a.send_bundle(ctr)
    except Exception as e:
        err=e
    GLib.run_pending()
    return a,cl,payload,err
if __name__=='__main__':
    a,cl,payload,err=run(int(sys.argv[1]), int(sys.argv[2]))
    print(err, GLib.ERRORS)
    for d in cl.sent:
        b=Bundle(d)
        print(len(d), b.primary.bundle_flags, b.primary.fragment_offset, b.primary.total_app_data_len, [ (x.type_code,x.block_num,len(x.btsd)) for x in b.blocks], b.check_all_crc())
