import re, sys, os
from bp_harness import *
def mkfrag(payload, off, ln, total=None, flags=0, src='dtn://src/', dtntime=1000, seq=1, blocks=(), crc=2, dst='dtn://me/svc'):
    b=Bundle()
    b.primary=PrimaryBlock(bundle_flags=flags|1,destination=dst,source=src,report_to='dtn:none',create_ts=Timestamp(dtntime=dtntime,seqno=seq),lifetime=10000,crc_type=crc,fragment_offset=off,total_app_data_len=len(payload) if total is None else total)
    b.blocks=list(blocks)+[CanonicalBlock(type_code=1,block_num=1,crc_type=crc,btsd=payload[off:off+ln])]
    b.fill_fields(); b.update_all_crc()
    return bytes(b)
def mkrx():
    a,cl=mkagent('dtn://me/', rx=[RxRouteItem(eid_pattern=re.compile('dtn://me/.*'),action='deliver')])
    delivered=[]
    from bp.util import ChainStep
    def app(ctr):
        if 'deliver' in ctr.actions:
            delivered.append(ctr)
    a._rx_chain.append(ChainStep(order=25,name='probe',action=app)); a._rx_chain.sort()
    return a,delivered
def feed(a,data):
    a._cl_recv_bundle_finish('fake')(data,{})
    GLib.run_pending()
if __name__=='__main__':
    payload=bytes(range(30))
    a,delivered=mkrx()
    for off,ln in ((0,10),(0,20),(20,10)):
        feed(a,mkfrag(payload,off,ln))
        print(off,ln,len(delivered), a._app['fragment']._reassembly and list(a._app['fragment']._reassembly.values())[0].valid)
    print(GLib.ERRORS)
