import random
from t5 import *
random.seed(7)
bad=0
for trial in range(300):
    nb=random.randint(1,3)
    bundles=[]
    frs=[]
    for k in range(nb):
        n=random.choice([1,2,23,24,25,100,255,256,257,1000])
        payload=bytes(random.getrandbits(8) for _ in range(n))
        src=random.choice(['dtn://src/','dtn://src2/'])
        key=(src,random.choice([1000,1001]),random.choice([1,2]))
        if any(b[0]==key for b in bundles): continue
        crc=random.choice([0,1,2])
        blocks0=[CanonicalBlock(type_code=200+k,block_num=2,block_flags=random.choice([0,1]),crc_type=crc,btsd=b'ext%d'%k)]
        bundles.append((key,payload,k))
        # random fragmentation with distinct offsets, overlapping allowed
        offs=sorted(set([0]+[random.randrange(n) for _ in range(random.randint(0,5))]))
        for i,o in enumerate(offs):
            nxt=offs[i+1] if i+1<len(offs) else n
            ln=min(n-o, nxt-o+random.choice([0,0,3]))
            blks=[b.copy() for b in blocks0] if o==0 else []
            frs.append((key,mkfrag(payload,o,ln,src=key[0],dtntime=key[1],seq=key[2],blocks=blks,crc=crc)))
    frs=frs+random.sample(frs,len(frs)//2)
    random.shuffle(frs)
    a,delivered=mkrx()
    for key,d in frs:
        feed(a,d)
    got={}
    for c in delivered:
        k=c.bundle_ident()
        if k in got: print('DOUBLE'); bad+=1
        got[k]=c
    for key,payload,k in bundles:
        c=got.get(key)
        if c is None: print('MISSING',trial,key,len(payload)); bad+=1; continue
        if bytes(c.block_num(1).btsd)!=payload: print('PAYLOAD'); bad+=1
        ext=[(int(b.type_code),bytes(b.btsd)) for b in c.bundle.blocks[:-1]]
        if ext!=[(200+k,b'ext%d'%k)]: print('EXT',ext); bad+=1
    if GLib.ERRORS: print(GLib.ERRORS); bad+=1
print('bad',bad)
