from t5 import *
import cbor2
# admin record payload: status report-ish [1, [...]] large
rec=cbor2.dumps([1,[[[True],[False],[False],[False]],0,'dtn://someone/'+'x'*60,[1000,1]]])
print(len(rec))
a,delivered=mkrx()
a._rx_chain=[s for s in a._rx_chain]
n=len(rec)
for off,ln in ((0,30),(30,30),(60,n-60)):
    try:
        feed(a,mkfrag(rec,off,ln,flags=2,dst='dtn://me/'))
    except Exception as e:
        import traceback; traceback.print_exc()
print(len(delivered),GLib.ERRORS)
for c in delivered:
    got=bytes(c.block_num(1).btsd); print(got==rec, len(got)); print(got); print(rec)
