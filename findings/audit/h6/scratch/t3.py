import re, sys, itertools
from bp_harness import *
def fwd(paylen, mtu, crc=2, flags=0, blocks=(), dtntime=1000, lifetime=10000, src='dtn://src/'):
    a,cl=mkagent('dtn://me/', rx=[RxRouteItem(eid_pattern=re.compile('.*'),action='forward')], tx=[TxRouteItem(eid_pattern=re.compile('.*'), next_nodeid='dtn://far/', cl_type='fake', mtu=mtu)])
    payload=bytes((i*7+3)&0xff for i in range(paylen))
    b=Bundle()
    b.primary=PrimaryBlock(bundle_flags=flags,destination='dtn://far/x',source=src,report_to='dtn:none',create_ts=Timestamp(dtntime=dtntime,seqno=5),lifetime=lifetime,crc_type=crc)
    b.blocks=list(blocks)+[CanonicalBlock(type_code=1,block_num=1,crc_type=crc,btsd=payload)]
    b.fill_fields(); b.update_all_crc()
    data=bytes(b)
    a.recv_bundle(BundleContainer(Bundle(data)))
    GLib.run_pending()
    return a,cl,payload,data
def show(cl):
    for d in cl.sent:
        b=Bundle(d)
        p=b.primary
        print(len(d), int(p.bundle_flags), p.source, p.create_ts.dtntime, p.create_ts.seqno, p.lifetime, p.fragment_offset, p.total_app_data_len, [ (x.type_code,x.block_num,int(x.block_flags),len(x.btsd)) for x in b.blocks], b.check_all_crc())
if __name__=='__main__':
    blocks=[CanonicalBlock(type_code=10,block_num=2,crc_type=2)/HopCountBlock(limit=30,count=1),
            CanonicalBlock(type_code=200,block_num=3,block_flags=1,crc_type=1,btsd=b'replicated'),
            CanonicalBlock(type_code=201,block_num=4,block_flags=0,crc_type=0,btsd=b'notrepl')]
    a,cl,payload,data=fwd(300,150,blocks=blocks)
    print(len(data),GLib.ERRORS); show(cl)
    a,cl,payload,data=fwd(300,150,blocks=blocks,dtntime=0)
    print(len(data),GLib.ERRORS); show(cl)
    a,cl,payload,data=fwd(300,150,lifetime=0)
    print(len(data),GLib.ERRORS); show(cl)
