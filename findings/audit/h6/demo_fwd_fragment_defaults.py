#!/usr/bin/env python
''' C05: fragments of a *forwarded* bundle are re-originated.

A received bundle whose creation time is zero (legal in BPv7 for a source
without a clock; it carries a Bundle Age block) and/or whose lifetime is zero
is forwarded over a route whose MTU forces fragmentation.  Each fragment is a
fresh BundleContainer without the 'receive' action, so when it re-enters
Agent.send_bundle() the origination defaults of Agent._apply_primary() are
applied to it: every fragment gets a *new, different* creation timestamp
(and lifetime 3600000), and because those values encode longer than the ones
the size budget was computed with, every full fragment exceeds the MTU.

Run: HUNT_SRC=/tmp/hunt/w6/src PYTHONPATH=/tmp/hunt:/tmp/hunt/stubs:/tmp/hunt/w6/src /venv/bin/python demo_fwd_fragment_defaults.py
'''
import re
import sys
from bp_harness import *

MTU = 150
PAYLOAD = bytes((i * 7 + 3) & 0xff for i in range(300))


def forward(dtntime, seqno, lifetime):
    agent, cl = mkagent(
        'dtn://me/',
        rx=[RxRouteItem(eid_pattern=re.compile('.*'), action='forward')],
        tx=[TxRouteItem(eid_pattern=re.compile('.*'), next_nodeid='dtn://far/', cl_type='fake', mtu=MTU)],
    )
    b = Bundle()
    b.primary = PrimaryBlock(
        destination='dtn://far/x', source='dtn://src/', report_to='dtn:none',
        create_ts=Timestamp(dtntime=dtntime, seqno=seqno), lifetime=lifetime, crc_type=2)
    b.blocks = [
        CanonicalBlock(type_code=7, block_num=2, crc_type=2) / BundleAgeBlock(age=1234),
        CanonicalBlock(type_code=1, block_num=1, crc_type=2, btsd=PAYLOAD),
    ]
    b.fill_fields()
    b.update_all_crc()
    agent.recv_bundle(BundleContainer(Bundle(bytes(b))))
    GLib.run_pending()
    return cl.sent, GLib.ERRORS[:]


def examine(label, dtntime, seqno, lifetime):
    sent, errors = forward(dtntime, seqno, lifetime)
    print('--- %s: original source=dtn://src/ create_ts=(%d,%d) lifetime=%d, route MTU %d' % (label, dtntime, seqno, lifetime, MTU))
    problems = []
    if errors:
        problems.append('escaped exceptions %s' % errors)
    idents = set()
    for data in sent:
        p = Bundle(data).primary
        ts = (p.create_ts.getfieldval('dtntime'), p.create_ts.getfieldval('seqno'))
        idents.add((p.source,) + ts)
        print('  sent %3d octets flags=%#x create_ts=%s lifetime=%s offset=%s total=%s' % (
            len(data), int(p.bundle_flags), ts, p.getfieldval('lifetime'), p.fragment_offset, p.total_app_data_len))
        if len(data) > MTU:
            problems.append('fragment at offset %s encodes to %d > MTU %d' % (p.fragment_offset, len(data), MTU))
        if ts != (dtntime, seqno):
            problems.append('fragment at offset %s carries create_ts %s, original is %s' % (p.fragment_offset, ts, (dtntime, seqno)))
        if p.getfieldval('lifetime') != lifetime:
            problems.append('fragment at offset %s carries lifetime %s, original is %s' % (p.fragment_offset, p.getfieldval('lifetime'), lifetime))
    if len(idents) > 1:
        problems.append('fragments carry %d different identities, they can never be reassembled' % len(idents))
    return problems


def main():
    print('expected: every fragment <= MTU and carrying the original source / creation timestamp / lifetime')
    failed = False
    # control: ordinary forwarded bundle
    probs = examine('control (non-zero time and lifetime)', 1000, 5, 10000)
    print('  control problems:', probs or 'none')
    failed |= bool(probs)
    for label, args in (
            ('creation time zero (clock-less source, Bundle Age block present)', (0, 5, 10000)),
            ('lifetime zero', (1000, 5, 0))):
        probs = examine(label, *args)
        for p in probs:
            print('  DEFECT:', p)
        failed |= bool(probs)
    print('RESULT:', 'DEFECT SHOWN' if failed else 'no defect')
    return 1 if failed else 0


if __name__ == '__main__':
    sys.exit(main())
