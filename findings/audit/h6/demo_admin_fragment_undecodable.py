#!/usr/bin/env python
''' C06: fragments of a bundle whose payload is an administrative record
cannot even be decoded by the receiver, so such a bundle is never reassembled.

Fragment._create() happily fragments a status report (flag PAYLOAD_ADMIN stays
set on every fragment, as it must).  On the receiving side
Bundle.post_dissect() sees PAYLOAD_ADMIN and parses the payload block data as
a complete AdminRecord - but a fragment only holds a slice of the record, so
cbor2 raises CBORDecodeEOF, Bundle(data) fails inside the convergence-layer
callback (Agent._cl_recv_bundle_finish) and the fragment is lost before
recv_bundle()/Fragment._reassemble() ever see it.

Both ends below are the project's own code: node dtn://s/ produces the status
report and fragments it for a small-MTU link, node dtn://me/ receives.

Run: HUNT_SRC=/tmp/hunt/w6/src PYTHONPATH=/tmp/hunt:/tmp/hunt/stubs:/tmp/hunt/w6/src /venv/bin/python demo_admin_fragment_undecodable.py
'''
import re
import sys
from bp_harness import *
from bp.util import ChainStep

MTU = 90
REPORTER = 'dtn://s/'
ME = 'dtn://me/'


def make_reports(mtu):
    ''' Node dtn://s/ receives a bundle asking for a reception report and
    sends that report towards dtn://me/ over a route with the given MTU. '''
    agent, cl = mkagent(
        REPORTER,
        rx=[RxRouteItem(eid_pattern=re.compile(r'dtn://s/.*'), action='deliver')],
        tx=[TxRouteItem(eid_pattern=re.compile(r'dtn://me/.*'), next_nodeid=ME, cl_type='fake', mtu=mtu)])
    data = mkbundle(dst='dtn://s/sink', src='dtn://me/a-rather-long-application-endpoint-name',
                    report_to=ME, flags=int(PrimaryBlock.Flag.REQ_RECEPTION_REPORT), payload=b'hello')
    agent._cl_recv_bundle_finish('fake')(data, {})
    GLib.run_pending()
    assert not GLib.ERRORS, GLib.ERRORS
    return cl.sent


def receiver():
    agent, _cl = mkagent(ME)
    got = []

    def probe(ctr):
        if 'deliver' in ctr.actions:
            got.append(bytes(ctr.block_num(1).getfieldval('btsd')))

    agent._rx_chain.append(ChainStep(order=25, name='probe application', action=probe))
    agent._rx_chain.sort()
    return agent, got


def feed(agent, datas):
    excs = []
    for data in datas:
        try:
            agent._cl_recv_bundle_finish('fake')(data, {})
        except Exception as err:
            excs.append('%s: %s' % (type(err).__name__, err))
        GLib.run_pending()
    return excs


def main():
    whole = make_reports(None)
    assert len(whole) == 1
    record = bytes(Bundle(whole[0]).blocks[-1].getfieldval('btsd'))
    print('status report bundle: %d octets, administrative record payload %d octets' % (len(whole[0]), len(record)))

    # control: the unfragmented report is delivered
    agent, got = receiver()
    excs = feed(agent, whole)
    print('control, unfragmented: delivered %d, payload intact %s, exceptions %s' % (len(got), got == [record], excs or 'none'))
    failed = not (got == [record] and not excs)

    frags = make_reports(MTU)
    print('same report over a route with MTU %d: %d fragments' % (MTU, len(frags)))
    covered = 0
    for data in frags:
        # decode without the admin flag just to show what was sent
        arr = cbor2.loads(data)
        pri, pay = arr[0], arr[-1]
        print('  fragment %3d octets flags=%#x offset=%d total=%d payload %d octets' % (len(data), pri[1], pri[8], pri[9], len(pay[4])))
        assert record[pri[8]:pri[8] + len(pay[4])] == pay[4]
        covered += len(pay[4])
    print('  fragments tile the record: %s' % (covered == len(record)))

    agent, got = receiver()
    excs = feed(agent, frags)
    print('expected: exactly one reassembled bundle whose payload equals the %d-octet record' % len(record))
    print('observed: delivered %d; reassembly table %s' % (len(got), dict(agent._app['fragment']._reassembly) or 'empty'))
    for e in excs:
        print('  exception escaped the CL receive callback:', e)
    if got != [record]:
        print('  DEFECT: the fragmented administrative bundle was not delivered')
        failed = True
    print('RESULT:', 'DEFECT SHOWN' if failed else 'no defect')
    return 1 if failed else 0


if __name__ == '__main__':
    sys.exit(main())
