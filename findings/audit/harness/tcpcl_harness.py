import sys, logging
sys.path[:0]=[__import__('os').environ.get('HUNT_STUBS','/tmp/hunt/stubs'), __import__('os').environ['HUNT_SRC']]
logging.basicConfig(level=logging.CRITICAL)
from gi.repository import GLib
import dbus.service
from tcpcl.config import Config
from tcpcl.session import ContactHandler
from tcpcl import messages, contact

class FakeSock:
    def __init__(self,name,peername): self.name=name; self.rx=b''; self.peer=None; self.closed=False; self._pn=peername; self.chunk=None
    def setblocking(self,x): pass
    def fileno(self): return -1 if self.closed else 5
    def recv(self,n):
        d=self.rx[:n]; self.rx=self.rx[n:]; return d
    def send(self,d):
        if self.peer.closed: raise OSError('closed')
        k=len(d) if self.chunk is None else min(len(d),self.chunk)
        self.peer.rx+=d[:k]; return k
    def shutdown(self,h): pass
    def close(self):
        self.closed=True
    def getpeername(self): return (self._pn,4556)
    def readable(self): return (not self.closed) and (len(self.rx)>0 or self.peer.closed)
    def writable(self): return not self.closed
def pair():
    a=FakeSock('a','10.0.0.2'); b=FakeSock('b','10.0.0.1'); a.peer=b; b.peer=a; return a,b
def mk(sock,passive,**cfg):
    c=Config(tls_enable=False,node_id='dtn://%s/'%sock.name,**cfg)
    kw=dict(config=c,sock=sock)
    if passive: kw['fromaddr']=('10.0.0.1',1234)
    else: kw['toaddr']=('10.0.0.2',4556)
    h=ContactHandler(hdl_kwargs=kw,bus_kwargs=dict(conn=None,object_path='/c/'+sock.name))
    return h
def established(**cfg):
    GLib.SOURCES.clear(); GLib.ERRORS.clear(); dbus.service.EMITTED.clear()
    sa,sb=pair(); A=mk(sa,False,**cfg); B=mk(sb,True,**cfg)
    A.start(); B.start(); GLib.run_pending()
    return A,B,sa,sb
def inject(sock_of_receiver, pkt):
    sock_of_receiver.rx+=bytes(pkt)
