import sys, types, logging
sys.path[:0]=[__import__('os').environ.get('HUNT_STUBS','/tmp/hunt/stubs'), __import__('os').environ['HUNT_SRC']]
logging.basicConfig(level=logging.CRITICAL)
from gi.repository import GLib
import dbus, dbus.service
pkg=types.ModuleType('bp.app'); pkg.__path__=[__import__('os').environ['HUNT_SRC']+'/bp/app']
import bp; sys.modules['bp.app']=pkg; bp.app=pkg
import bp.app.base, bp.app.admin, bp.app.fragment
import re, cbor2
from bp.config import Config, RxRouteItem, TxRouteItem
from bp.encoding import *
from bp.util import BundleContainer
import bp.agent
class FakeBusObj:
    def connect_to_signal(self,*a,**k): pass
    def NameHasOwner(self,n): return False
class FakeConn:
    def get_object(self,*a): return FakeBusObj()
class FakeCL:
    def __init__(self): self.sent=[]; self.serv_name='x'
    def send_bundle_func(self, raw):
        return lambda data: self.sent.append(bytes(data))
def mkagent(node='dtn://me/', rx=(), tx=()):
    GLib.SOURCES.clear(); GLib.ERRORS.clear()
    c=Config(node_id=node); c._bus_conn=FakeConn()
    c.rx_route_table=list(rx); c.tx_route_table=list(tx)
    a=bp.agent.Agent(c, bus_kwargs=dict(conn=None,object_path='/a'))
    cl=FakeCL(); a._cl_agent['fake']=cl
    return a,cl
def mkbundle(dst='dtn://far/x', src='dtn://src/', flags=0, payload=b'p'*100, report_to='dtn://src/', dtntime=1000, blocks=()):
    b=Bundle()
    b.primary=PrimaryBlock(bundle_flags=flags,destination=dst,source=src,report_to=report_to,create_ts=Timestamp(dtntime=dtntime,seqno=1),lifetime=10000,crc_type=2)
    b.blocks=list(blocks)+[CanonicalBlock(type_code=1,block_num=1,crc_type=2,btsd=payload)]
    b.fill_fields(); b.update_all_crc()
    return bytes(b)
