import os, sys
HERE = os.path.dirname(os.path.abspath(__file__)); sys.path.insert(0, os.path.join(HERE, '..', '..')); sys.path.insert(0, os.path.join(HERE, '..', '..', 'demos'))
from bpsec_demos import *
from bpsec_demos import _ctx
import copy, itertools, logging
logging.disable(logging.CRITICAL)

def make(sec_type='bib'):
    src = _ctx(sec_type=sec_type, ops=(keyops.MacCreateOp, keyops.MacVerifyOp) if sec_type == 'bib' else (keyops.EncryptOp, keyops.DecryptOp), alg=algorithms.HMAC256 if sec_type == 'bib' else algorithms.A256GCM)
    src.sec_assoc[0].templates[0].content_iv = [b'\x01' * 12, b'\x02' * 12]
    b = Bundle()
    b.primary = PrimaryBlock(bundle_flags=0, destination='dtn://me/svc', source='dtn://src/', report_to='dtn://src/', create_ts=Timestamp(dtntime=1000, seqno=1), lifetime=10000, crc_type=0)
    b.blocks = [CanonicalBlock(type_code=1, block_num=1, crc_type=0, btsd=b'secret-payload')]
    b.fill_fields()
    ctr = BundleContainer(Bundle(bytes(b)))
    (src.apply_bib if sec_type == 'bib' else src.apply_bcb)(ctr)
    ctr.bundle.fill_fields(); ctr.bundle.update_all_crc()
    return bytes(ctr.bundle)

def verify(data, sec_type='bib'):
    rx = BundleContainer(Bundle(data))
    app = bpsec.Bpsec.__new__(bpsec.Bpsec)
    app._contexts = {bpsec.BPSEC_COSE_CONTEXT_ID: _ctx(accept=True, sec_type=sec_type, ops=(keyops.MacCreateOp, keyops.MacVerifyOp) if sec_type == 'bib' else (keyops.EncryptOp, keyops.DecryptOp), alg=algorithms.HMAC256 if sec_type == 'bib' else algorithms.A256GCM)}
    rx.record_action('deliver')
    (app._verify_bib if sec_type == 'bib' else app._verify_bcb)(rx)
    return 'deliver' in rx.actions

def alts(v):
    ''' same-meaning values of another CBOR type '''
    if isinstance(v, bool):
        return [int(v)]
    if isinstance(v, int):
        r = [float(v)]
        if v in (0, 1):
            r.append(bool(v))
        r.append(str(v))
        return r
    if isinstance(v, bytes):
        return [list(v), v.decode('latin1'), bytearray(v) and cbor2.CBORTag(24, v)]
    if isinstance(v, str):
        return [v.encode('utf8')]
    if isinstance(v, list):
        r = [tuple(v)]
        try:
            r.append(bytes(v))
        except Exception:
            pass
        try:
            r.append(dict(v))
        except Exception:
            pass
        return r
    if isinstance(v, dict):
        return [[list(kv) for kv in v.items()], [tuple(kv) for kv in v.items()]]
    return []

def paths(item, pre=()):
    yield pre, item
    if isinstance(item, list):
        for (i, x) in enumerate(item):
            yield from paths(x, pre + (i,))
    elif isinstance(item, dict):
        for (k, x) in item.items():
            yield from paths(x, pre + (('k', k),))

def setp(root, path, val):
    cur = root
    for p in path[:-1]:
        cur = cur[p[1]] if isinstance(p, tuple) else cur[p]
    p = path[-1]
    if isinstance(p, tuple):
        cur[p[1]] = val
    else:
        cur[p] = val

for sec_type in ('bib', 'bcb'):
    data = make(sec_type)
    assert verify(data, sec_type), 'clean bundle must verify'
    blocks = cbor2.loads(data)
    # expand the security block's BTSD (a bstr of a CBOR sequence? no: BTSD is bstr containing the ASB array items)
    found = []
    n = 0
    for (bi, blk) in enumerate(blocks):
        views = [('blk', blk)]
        for (path, val) in list(paths(blk)):
            for a in alts(val):
                mut = copy.deepcopy(blocks)
                if not path:
                    mut[bi] = a
                else:
                    setp(mut[bi], path, a)
                try:
                    enc = b'\x9f' + b''.join(cbor2.dumps(x) for x in mut) + b'\xff'
                except Exception:
                    continue
                if enc == data:
                    continue
                n += 1
                try:
                    ok = verify(enc, sec_type)
                except Exception as err:
                    ok = False
                if ok:
                    found.append((bi, path, val, a))
    print(sec_type, 'outer alterations tried', n, 'accepted', len(found))
    for f in found[:30]:
        print('   block', f[0], 'path', f[1], repr(f[2])[:40], '->', repr(f[3])[:50])
    # inside the BTSD of the security block
    for (bi, blk) in enumerate(blocks):
        if blk[0] not in (11, 12):
            continue
        import io
        buf = io.BytesIO(blk[-1] if len(blk) == 5 else blk[-2])
        # the ASB is a CBOR sequence inside btsd? decode as many items as there are
        items = []
        dec = cbor2.CBORDecoder(buf)
        while buf.tell() < len(buf.getvalue()):
            items.append(dec.decode())
        found = []; n = 0
        for (path, val) in list(paths(items)):
            if not path:
                continue
            for a in alts(val):
                mi = copy.deepcopy(items)
                setp(mi, path, a)
                try:
                    btsd = b''.join(cbor2.dumps(x) for x in mi)
                except Exception:
                    continue
                mut = copy.deepcopy(blocks)
                mut[bi][4] = btsd
                enc = b'\x9f' + b''.join(cbor2.dumps(x) for x in mut) + b'\xff'
                if enc == data:
                    continue
                n += 1
                try:
                    ok = verify(enc, sec_type)
                except Exception:
                    ok = False
                if ok:
                    found.append((path, val, a))
        print(sec_type, 'ASB items', len(items), 'inner alterations tried', n, 'accepted', len(found))
        for f in found[:40]:
            print('   path', f[0], repr(f[1])[:40], '->', repr(f[2])[:50])
