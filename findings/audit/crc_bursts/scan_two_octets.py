import os, sys, resource, signal
sys.path.insert(0, os.path.join(os.path.dirname(os.path.abspath(__file__)), '..', '..'))
from bp_harness import *
import cbor2, collections, multiprocessing
resource.setrlimit(resource.RLIMIT_AS, (2 << 30, 2 << 30))


def mk(crc):
    which = crc // 10
    crc = crc % 10
    from bp.encoding import BlockIntegrityBlock, TypeValuePair, TargetResultList, PreviousNodeBlock, BundleAgeBlock
    if which == 0:
        data = mkbundle(dst='dtn://me/svc', payload=b'hello world', blocks=[CanonicalBlock(type_code=10, block_num=2, crc_type=crc) / HopCountBlock(limit=30, count=1)])
    elif which == 1:
        bib = CanonicalBlock(type_code=11, block_num=5, crc_type=crc) / BlockIntegrityBlock(
            targets=[1], context_id=3, context_flags=1, source='ipn:5.6',
            parameters=[TypeValuePair(type_code=5, value={0: 1})], results=[TargetResultList(results=[TypeValuePair(type_code=17, value=b'\x80')])])
        data = mkbundle(dst='ipn:1.2', src='dtn:none', report_to='dtn:none', dtntime=0, payload=b'\x01\x02\x03', blocks=[
            CanonicalBlock(type_code=6, block_num=2, crc_type=crc) / PreviousNodeBlock(node='dtn://prev/'),
            CanonicalBlock(type_code=7, block_num=3, crc_type=crc) / BundleAgeBlock(age=1),
            bib])
    b = Bundle(data)
    for blk in [b.primary] + list(b.blocks):
        blk.crc_type = crc
        blk.crc_value = None
    if which == 1:
        b.primary.bundle_flags |= 1
        b.primary.fragment_offset = 0
        b.primary.total_app_data_len = 1
    b.update_all_crc()
    return bytes(b)


class TO(Exception):
    pass


def onalarm(*a):
    raise TO()


def work(arg):
    (crc, pos) = arg
    data = mk(crc)
    acc = []
    signal.signal(signal.SIGALRM, onalarm)
    def cands(b):
        c = set((b & 0x1f) | (m << 5) for m in range(8)) | {0xf4, 0xf5, 0xf6, 0xf7, 0xf9, 0xfa, 0xfb, 0x18, 0x19, 0x1a, 0x00, 0x01, 0x40, 0x41, 0x42, 0x60, 0x80, 0x81, 0x82, 0xa0, 0xc0 | (b & 0x1f), 0xff, 0x9f, 0x5f, 0x7f}
        return sorted(c)
    if pos + 1 >= len(data) - 1:
        return acc
    for (v, w) in [(a, b) for a in cands(data[pos]) for b in cands(data[pos + 1])]:
        if v == data[pos] and w == data[pos + 1]:
            continue
        mut = data[:pos] + bytes([v, w]) + data[pos + 2:]
        v = (v << 8) | w
        try:
            signal.setitimer(signal.ITIMER_REAL, 20.0)
            m = Bundle(mut)
            bad = m.check_all_crc()
            signal.setitimer(signal.ITIMER_REAL, 0)
        except TO:
            acc.append((pos, data[pos], v, 'TIMEOUT'))
            continue
        except MemoryError:
            signal.setitimer(signal.ITIMER_REAL, 0)
            acc.append((pos, data[pos], v, 'MEMORY'))
            continue
        except Exception:
            signal.setitimer(signal.ITIMER_REAL, 0)
            continue
        if not bad:
            acc.append((pos, data[pos], v, 'ACCEPTED'))
    return acc


if __name__ == '__main__':
    for crc in (1, 2, 11, 12):
        data = mk(crc)
        assert not Bundle(data).check_all_crc()
        print('crc', crc, 'len', len(data), data.hex())
        with multiprocessing.Pool(16) as pool:
            res = pool.map(work, [(crc, p) for p in range(1, len(data) - 1)])
        acc = [a for r in res for a in r]
        print('  findings:', collections.Counter(a[3] for a in acc))
        for a in acc[:60]:
            print('   pos %d  0x%02x.. -> 0x%04x %s' % a)
