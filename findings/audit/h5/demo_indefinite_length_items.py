#!/usr/bin/env python
'''C02 (and the receive clause of C08 seen from the other side): RFC 9171 section 4.1 requires
deterministic CBOR "except that indefinite-length items are not prohibited".  An independent
encoder may therefore write a block array, or the block-type-specific data byte string, with
indefinite length.  The project decodes such a bundle to the right field values, but
  * re-encoding does not reproduce the octets (nothing of the original encoding is kept), and
  * because check_crc() runs over that re-encoding, a CORRECT CRC computed by the sender over
    the octets it really sent never matches: the valid bundle is dropped by the agent.
exit 1 = defect shown.'''
import os, sys, struct
sys.path.insert(0, os.path.dirname(os.path.abspath(__file__)))
import re, cbor2
import bp_harness
from bp_harness import *
from common import crc32c, eid, canon, primary, bundle

def indef_block(items, crc_type):
    '''block as indefinite-length array, CRC-32C over the octets as sent with a zeroed CRC'''
    body = b''.join(cbor2.dumps(i) for i in items)
    if not crc_type:
        return b'\x9f' + body + b'\xff'
    zero = b'\x9f' + body + cbor2.dumps(b'\0' * 4) + b'\xff'
    return b'\x9f' + body + cbor2.dumps(struct.pack('>L', crc32c(zero))) + b'\xff'

def chunked_payload_block(chunks, crc_type):
    '''payload block whose BTSD is an indefinite-length (chunked) byte string'''
    btsd = b'\x5f' + b''.join(cbor2.dumps(c) for c in chunks) + b'\xff'
    head = b''.join(cbor2.dumps(i) for i in (1, 1, 0, crc_type))
    if not crc_type:
        return b'\x85' + head + btsd
    zero = b'\x86' + head + btsd + cbor2.dumps(b'\0' * 4)
    return b'\x86' + head + btsd + cbor2.dumps(struct.pack('>L', crc32c(zero)))

bad = 0
pri_items = [7, 0, None, eid('dtn://far/x'), eid('dtn://src/'), eid('dtn:none'), [1000, 1], 10000]
cases = {}
for ct in (0, 2):
    it = list(pri_items); it[2] = ct
    cases['indefinite-length primary block array, CRC type %d' % ct] = bundle(indef_block(it, ct), [canon(1, 1, 0, ct, b'abcde')])
    cases['chunked payload byte string, CRC type %d' % ct] = bundle(primary(crc_type=ct), [chunked_payload_block([b'abc', b'de'], ct)])
for name, data in cases.items():
    ref = cbor2.loads(data)          # any generic CBOR decoder accepts it
    b = Bundle(data)
    values_ok = (b.primary.destination == 'dtn://far/x' and b.blocks[-1].btsd == b'abcde' and len(ref) == 2)
    reenc = bytes(b)
    fails = b.check_all_crc()
    a, cl = mkagent('dtn://me/', rx=[RxRouteItem(re.compile('.*'), 'forward')],
                    tx=[TxRouteItem(re.compile('.*'), 'dtn://next/', 'fake')])
    a._cl_recv_bundle_finish('fake')(data, {})
    GLib.run_pending()
    print('%s:' % name)
    print('    field values decoded correctly: %s; re-encode identical: %s (expected True)' % (values_ok, reenc == data))
    print('    check_all_crc() failed blocks: %s (expected none, the CRCs are correct); agent forwarded: %s (expected True)' % (fails or '{}', bool(cl.sent)))
    if reenc != data or fails or not cl.sent:
        bad += 1
print('DEFECT SHOWN' if bad else 'not shown')
sys.exit(1 if bad else 0)
