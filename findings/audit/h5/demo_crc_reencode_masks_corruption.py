#!/usr/bin/env python
'''C08: the receive-side CRC check does not run over the received octets.  check_crc()
re-encodes the block from the decoded field values and compares the CRC of THAT with the
received CRC.  Every corruption that the lenient field decoders map back to the original
re-encoding therefore passes: the bundle is recorded as seen, forwarded and reported on.
Shown: one single-bit flip, and bursts far shorter than the CRC width, in CRC-32C and
CRC-16 protected blocks.
exit 1 = defect shown.'''
import os, sys
sys.path.insert(0, os.path.dirname(os.path.abspath(__file__)))
from crc_demo_lib import *
from common import primary, canon, bundle

shown = 0
for ct in (2, 1):
    print('=== all blocks protected by CRC type %d ===' % ct)
    pri = primary(flags=0x4000 | 0x10000, crc_type=ct, dst='dtn://far/x', src='dtn://src/', rpt='dtn://src/', ts=(1000, 0), life=10000)
    pay = canon(1, 1, 0, ct, b'\x01\x02\x03')
    good = bundle(pri, [pay])
    assert independent_verdict(good) == 'valid'
    a, cl, exc = feed(good)
    assert a._seen_bundle_ident and not exc

    def patch(block, off, new):
        i = good.index(block) + off
        c = bytearray(good); c[i:i + len(new)] = new
        return bytes(c)

    # 1. single-bit flip in the source EID text: "//src/" -> "//src?"  (0x2f ^ 0x10)
    off = pri.index(b'//src/') + 5
    shown += report('single-bit flip in the source EID (primary block): "/" -> "?"', good, patch(pri, off, b'?'))
    # 2. same octet hit by a 5-bit burst: "/" -> CR  (urlsplit silently deletes CR/LF/TAB)
    shown += report('5-bit burst in the source EID: "/" -> CR', good, patch(pri, off, b'\r'))
    # 3. sequence number uint 0 (0x00) -> CBOR false (0xf4): int(False) == 0
    off = pri.index(bytes.fromhex('821903e800')) + 4
    shown += report('6-bit burst: creation sequence number 0x00 -> 0xf4 (CBOR false)', good, patch(pri, off, b'\xf4'))
    # 4. lifetime uint16 10000 -> half-float 10000.0 : 19 2710 -> f9 70e2
    off = pri.index(bytes.fromhex('192710'))
    if ct == 2:
        shown += report('24-bit burst: lifetime 19 27 10 (uint) -> f9 70 e2 (half float 10000.0)', good, patch(pri, off, bytes.fromhex('f970e2')))
    # 5. payload block: block processing flags 0x00 -> 0xf4
    shown += report('6-bit burst in the payload block: block flags 0x00 -> 0xf4', good, patch(pay, 3, b'\xf4'))
    # 6. payload block: btsd byte string head 0x43 -> array head 0x83 : bytes([1,2,3]) == b"\1\2\3"
    shown += report('2-bit burst in the payload block: BTSD head 0x43 (bstr) -> 0x83 (array)', good, patch(pay, 5, b'\x83'))

print('%d corrupted bundles were accepted' % shown)
print('DEFECT SHOWN' if shown else 'not shown')
sys.exit(1 if shown else 0)
