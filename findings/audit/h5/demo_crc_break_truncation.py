#!/usr/bin/env python
'''C08: a short burst that turns the array head of a CRC-protected canonical block into the
CBOR "break" octet 0xff ends the bundle's indefinite array early.  AbstractCborStruct.dissect
uses cbor2.loads(), which decodes the first item and ignores all following octets, and nothing
requires a payload block.  The corrupted block (and every block after it, including the
payload) is never looked at, no CRC is checked for them, and the remaining stump is recorded
as seen, forwarded WITHOUT A PAYLOAD BLOCK and reported on.
exit 1 = defect shown.'''
import os, sys
sys.path.insert(0, os.path.dirname(os.path.abspath(__file__)))
from crc_demo_lib import *
from common import primary, canon, bundle

shown = 0
for ct in (1, 2):
    print('=== canonical blocks protected by CRC type %d ===' % ct)
    pri = primary(flags=0x4000 | 0x10000, crc_type=ct, dst='dtn://far/x', src='dtn://src/', rpt='dtn://src/', ts=(1000, 0), life=10000)
    hop = canon(10, 2, 0, ct, cbor2.dumps([30, 2]))
    pay = canon(1, 1, 0, ct, b'payload-data')
    good = bundle(pri, [hop, pay])
    assert independent_verdict(good) == 'valid'
    for label, blk in (('Hop Count block', hop), ('payload block', pay)):
        i = good.index(blk)
        c = bytearray(good); assert c[i] == 0x86; c[i] = 0xff
        shown += report('7-bit burst: array head of the %s 0x86 -> 0xff (break)' % label, good, bytes(c))
print('%d corrupted bundles were accepted' % shown)
print('DEFECT SHOWN' if shown else 'not shown')
sys.exit(1 if shown else 0)
