#!/usr/bin/env python
'''C02: a FRAGMENT of a bundle whose payload is an administrative record (flags
IS_FRAGMENT|PAYLOAD_ADMIN) is well-formed, but Bundle.post_dissect parses the fragment's
slice of the payload as if it were a whole administrative record.  Depending on where the
slice starts the decode raises, or it "succeeds" and re-encoding REWRITES the payload octets.
The project produces such bundles itself: Fragment._create fragments the agent's own status
report when the route MTU is small, and the next hop (same code) cannot decode any of them.
exit 1 = defect shown.'''
import os, sys
sys.path.insert(0, os.path.dirname(os.path.abspath(__file__)))
import re, cbor2
import bp_harness
from bp_harness import *
from common import primary, canon, bundle, split_bundle, check_block_crc

bad = 0
rec = [1, [[[True, 5000], [False], [False], [False]], 1, [1, '//src/'], [1000, 1]]]
full = cbor2.dumps(rec)
print('part 1: hand-made fragments of a %d-octet status report' % len(full))
for off, ln in ((0, 10), (4, 10), (5, 10), (9, 5), (20, 10)):
    part = full[off:off + ln]
    data = bundle(primary(flags=0x03, crc_type=2, frag=(off, len(full))), [canon(1, 1, 0, 2, part)])
    assert all(check_block_crc(b) for b in split_bundle(data))
    try:
        b = Bundle(data)
        reenc = bytes(b)
        if reenc != data:
            newpay = cbor2.loads(split_bundle(reenc)[-1])[4]
            print('  offset %2d len %2d: decode ok but re-encode DIFFERS: payload %s -> %d octets %s...' % (off, ln, part.hex(), len(newpay), newpay[:12].hex()))
            bad += 1
        else:
            print('  offset %2d len %2d: ok' % (off, ln))
    except Exception as err:
        print('  offset %2d len %2d: Bundle(bytes) RAISED %s: %s' % (off, ln, type(err).__name__, err))
        bad += 1

print('part 2: agent A (route MTU 110) reports reception; agent B receives what A sent')
subject = bundle(primary(flags=0x4000 | 0x40, crc_type=2, rpt='dtn://reports.example/collector/inbox',
                         src='dtn://source-node.example/app', dst='dtn://a/', ts=(1000, 0)),
                 [canon(1, 1, 0, 2, b'hello')])
A, clA = mkagent('dtn://a/', tx=[TxRouteItem(re.compile('.*'), 'dtn://b/', 'fake', mtu=110)])
A._cl_recv_bundle_finish('fake')(subject, {})
GLib.run_pending()
sent = list(clA.sent)
print('  A sent %d bundles of sizes %s' % (len(sent), [len(s) for s in sent]))
for s in sent:
    pri = cbor2.loads(split_bundle(s)[0])
    ok_struct = all(check_block_crc(b) for b in split_bundle(s))
    B, clB = mkagent('dtn://b/', rx=[RxRouteItem(re.compile('.*'), 'forward')],
                     tx=[TxRouteItem(re.compile('.*'), 'dtn://c/', 'fake')])
    try:
        B._cl_recv_bundle_finish('fake')(s, {})
        GLib.run_pending()
        print('  flags=%#x frag=%s valid=%s: B forwarded %d' % (pri[1], pri[8:10], ok_struct, len(clB.sent)))
        if len(clB.sent) != 1:
            bad += 1
        elif cbor2.loads(split_bundle(clB.sent[0])[-1])[4] != cbor2.loads(split_bundle(s)[-1])[4]:
            print('     but the forwarded payload octets differ from the received ones')
            bad += 1
    except Exception as err:
        print('  flags=%#x frag=%s valid=%s: B RAISED %s: %s (expected: forwarded unchanged)' % (pri[1], pri[8:10], ok_struct, type(err).__name__, err))
        bad += 1
print('DEFECT SHOWN' if bad else 'not shown')
sys.exit(1 if bad else 0)
