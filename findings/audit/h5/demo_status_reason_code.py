#!/usr/bin/env python
'''C02: a status report whose reason code is not in the project's ReasonCode enum
cannot be decoded: Bundle(bytes) raises.  Reason code 11 ("Block unsupported") is
assigned by RFC 9171 itself (section 6.1.1 / 10.5); codes 17..254 are unassigned but
are plain CBOR unsigned integers an independent encoder can produce.
exit 1 = defect shown.'''
import os, sys
sys.path.insert(0, os.path.dirname(os.path.abspath(__file__)))
import re, cbor2
import bp_harness
from bp_harness import *
from common import primary, canon, bundle

bad = 0
for rc in (0, 9, 10, 11, 16, 17, 255):
    rec = [1, [[[True, 5000], [False], [False], [False]], rc, [1, '//src/'], [1000, 1]]]
    data = bundle(primary(flags=0x02, crc_type=2, dst='dtn://far/x', src='dtn://reporter/'),
                  [canon(1, 1, 0, 2, cbor2.dumps(rec))])
    try:
        b = Bundle(data)
        same = bytes(b) == data
        got = b.blocks[0].payload.payload.getfieldval('reason_code')
        print('reason code %3d: decoded reason_code=%r, re-encode identical=%s' % (rc, int(got), same))
        if not same or int(got) != rc:
            bad += 1
    except Exception as err:
        print('reason code %3d: Bundle(bytes) RAISED %s: %s   (expected: decodes to the same field values)' % (rc, type(err).__name__, err))
        bad += 1

# agent level: a node that merely forwards such a report loses it
rec = [1, [[[False], [False], [False], [True]], 11, [1, '//src/'], [1000, 1]]]
data = bundle(primary(flags=0x02, crc_type=2, dst='dtn://far/x', src='dtn://reporter/'),
              [canon(1, 1, 0, 2, cbor2.dumps(rec))])
a, cl = mkagent('dtn://me/', rx=[RxRouteItem(re.compile('.*'), 'forward')],
                tx=[TxRouteItem(re.compile('.*'), 'dtn://next/', 'fake')])
try:
    a._cl_recv_bundle_finish('fake')(data, {})
    GLib.run_pending()
    print('agent: no exception, forwarded', len(cl.sent))
    if not cl.sent:
        bad += 1
except Exception as err:
    print('agent: exception escaped the CL receive callback: %s: %s; forwarded %d bundles (expected 1)' % (type(err).__name__, err, len(cl.sent)))
    bad += 1
print('DEFECT SHOWN' if bad else 'not shown')
sys.exit(1 if bad else 0)
