#!/usr/bin/env python
'''C08: block arrays are not checked for their exact length (RFC 9171: 5 items, or 6 with a
CRC).  CborArray.do_dissect reads the declared fields and hands whatever is left over to the
scapy "payload" dissector, which for several block types swallows it silently.  So corruption
that makes a block longer is not noticed:
 (a) single-bit flip of the CRC type 1/2 -> 0 in a Bundle Age block: the CRC item becomes a
     surplus 6th item, check_crc() sees "type 0, nothing to check";
 (b) single-bit flip of the Bundle Age block's array head 0x86 -> 0x87: the block swallows the
     NEXT block (here the payload block) as a 7th item; the bundle is accepted and forwarded
     WITHOUT a payload block;
 (c) 3-bit burst in a Hop Count block's array head 0x86 -> 0x88: swallows the next two blocks.
exit 1 = defect shown.'''
import os, sys
sys.path.insert(0, os.path.dirname(os.path.abspath(__file__)))
from crc_demo_lib import *
from common import primary, canon, bundle

shown = 0
for ct in (1, 2):
    print('=== extension blocks protected by CRC type %d ===' % ct)
    pri = primary(flags=0x4000 | 0x10000, crc_type=2, dst='dtn://far/x', src='dtn://src/', rpt='dtn://src/', ts=(0, 7), life=10000)
    age = canon(7, 2, 0, ct, cbor2.dumps(1234))
    hop = canon(10, 3, 0, ct, cbor2.dumps([30, 2]))
    unk = canon(99, 4, 0, ct, b'opaque')
    pay = canon(1, 1, 0, 2, b'payload-data')

    good = bundle(pri, [age, pay])
    assert independent_verdict(good) == 'valid'
    a, cl, exc = feed(good); assert a._seen_bundle_ident and not exc
    i = good.index(age)
    c = bytearray(good); assert c[i + 4] == ct; c[i + 4] = 0
    shown += report('(a) single-bit flip: CRC type of the Bundle Age block %d -> 0' % ct, good, bytes(c))
    if ct == 2:
        # a burst within the CRC width may then also rewrite the age value: 02 42 19 04 d2 -> 00 42 19 ff d2
        c = bytearray(good); c[i + 4] = 0; c[i + 7] = 0xff
        shown += report('(a2) 26-bit burst: CRC type 2 -> 0 and age 1234 (0x04d2) -> 65490 (0xffd2)', good, bytes(c))
        print('    decoded age now:', Bundle(bytes(c)).blocks[0].payload.age)
    c = bytearray(good); assert c[i] == 0x86; c[i] = 0x87
    shown += report('(b) single-bit flip: Bundle Age block array head 0x86 -> 0x87 (swallows the payload block)', good, bytes(c))

    good = bundle(pri, [hop, unk, pay])
    assert independent_verdict(good) == 'valid'
    i = good.index(hop)
    c = bytearray(good); assert c[i] == 0x86; c[i] = 0x88
    shown += report('(c) 3-bit burst: Hop Count block array head 0x86 -> 0x88 (swallows two blocks)', good, bytes(c))

print('%d corrupted bundles were accepted' % shown)
print('DEFECT SHOWN' if shown else 'not shown')
sys.exit(1 if shown else 0)
