#!/usr/bin/env python
'''C02, clause "the encoded form is ALWAYS the RFC 9171 structure ... as an independent decoder
reads it": CborArray.self_build catches the exception of a field that cannot be encoded, logs it
and simply leaves the item out.  The agent then computes CRCs over the short array and transmits
it.  Agent.ping() (a D-Bus method taking any string) with an endpoint ID the EID encoder refuses
puts a primary block on the wire that has CRC type 2 but only 8 items, every item after the
version/flags/CRC-type shifted by one (the "destination" an independent decoder reads is the
source).  Expected: nothing is transmitted (send fails).
exit 1 = defect shown.'''
import os, sys
sys.path.insert(0, os.path.dirname(os.path.abspath(__file__)))
import re, cbor2
import bp_harness
from bp_harness import *
from common import split_bundle

bad = 0
for dest in ('ipn:x.y', 'mailto:ops@example.org', 'dtn://ok/svc'):
    a, cl = mkagent('dtn://me/', tx=[TxRouteItem(re.compile('.*'), 'dtn://next/', 'fake')])
    err = None
    try:
        a.ping(dest, 5)
        GLib.run_pending()
    except Exception as e:
        err = e
    print('ping(%r): exception=%r, bundles transmitted=%d' % (dest, err, len(cl.sent)))
    for s in cl.sent:
        pri = cbor2.loads(split_bundle(s)[0])
        want = 8 + (1 if pri[2] else 0) + (2 if pri[1] & 1 else 0)
        ok = len(pri) == want and isinstance(pri[3], list) and isinstance(pri[6], list) and len(pri[6]) == 2 and isinstance(pri[7], int)
        print('    primary block on the wire has %d items (its own flags/CRC type require %d): %s' % (len(pri), want, pri))
        if not ok:
            print('    => malformed primary block was transmitted')
            bad += 1
print('DEFECT SHOWN' if bad else 'not shown')
sys.exit(1 if bad else 0)
