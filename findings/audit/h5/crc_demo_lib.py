'''Shared helpers for the C08 demos: feed an encoded bundle to a real bp.agent.Agent that
forwards everything, and say what the agent did with it.'''
import re, cbor2
import bp_harness
from bp_harness import *
from common import split_bundle, check_block_crc

def independent_verdict(data):
    '''What an independent RFC 9171 receiver says about the octets.'''
    import io
    try:
        fp = io.BytesIO(data)
        cbor2.CBORDecoder(fp).decode()
        if fp.tell() != len(data):
            return 'INVALID: the bundle array ends after %d octets, %d more octets follow' % (fp.tell(), len(data) - fp.tell())
        blocks = split_bundle(data)
    except Exception as err:
        return 'INVALID: malformed CBOR (%s)' % type(err).__name__
    probs = []
    for i, enc in enumerate(blocks):
        try:
            it = cbor2.loads(enc)
            if not isinstance(it, list):
                probs.append('block %d is not an array' % i); continue
            if i == 0:
                want = 8 + (2 if int(it[1]) & 1 else 0) + (1 if it[2] else 0)
            else:
                want = 5 + (1 if it[3] else 0)
            if len(it) != want:
                probs.append('block %d has %d items, its flags/CRC type require %d' % (i, len(it), want)); continue
            if not check_block_crc(enc):
                probs.append('block %d CRC mismatch' % i)
        except Exception as err:
            probs.append('block %d undecodable (%s)' % (i, type(err).__name__))
    last = cbor2.loads(blocks[-1]) if blocks else None
    if len(blocks) < 2 or not isinstance(last, list) or last[0] != 1:
        probs.append('no payload block at the end')
    return 'INVALID: ' + '; '.join(probs) if probs else 'valid'

def feed(data, node='dtn://me/'):
    a, cl = mkagent(node, rx=[RxRouteItem(re.compile('.*'), 'forward')],
                    tx=[TxRouteItem(re.compile('.*'), 'dtn://next/', 'fake')])
    exc = None
    try:
        a._cl_recv_bundle_finish('fake')(data, {})
        GLib.run_pending()
    except Exception as err:
        exc = err
    return a, cl, exc

def report(label, good, corrupt):
    '''returns True when the corrupted bundle was NOT dropped.'''
    diff = [(i, good[i], corrupt[i]) for i in range(len(good)) if good[i] != corrupt[i]]
    first, last = diff[0][0], diff[-1][0]
    x = int.from_bytes(bytes(a ^ b for a, b in zip(good[first:last + 1], corrupt[first:last + 1])), 'big')
    span = x.bit_length() - ((x & -x).bit_length() - 1)
    print('* %s' % label)
    print('    octets changed: %s  (error burst spans %d bit%s)' % (
        ', '.join('[%d] %02x->%02x' % d for d in diff), span, '' if span == 1 else 's'))
    print('    independent receiver: %s' % independent_verdict(corrupt))
    a, cl, exc = feed(corrupt)
    seen = set(a._seen_bundle_ident)
    fw = []
    for s in cl.sent:
        blks = [cbor2.loads(b) for b in split_bundle(s)]
        kind = 'status report' if blks[0][1] & 2 else 'forwarded bundle'
        fw.append('%s with block types %s' % (kind, [b[0] for b in blks[1:]]))
    dropped = not seen and not cl.sent
    print('    agent: exception=%s, recorded as seen=%s' % (type(exc).__name__ if exc else None, seen or '{}'))
    for f in fw:
        print('    agent transmitted: %s' % f)
    print('    => %s' % ('dropped (as required)' if dropped else 'NOT DROPPED (expected: dropped before seen/forward/report)'))
    return not dropped
