import re, cbor2
from bp_harness import *
from common import *
def feed(data):
    a,cl=mkagent('dtn://me/', rx=[RxRouteItem(re.compile('.*'),'forward')], tx=[TxRouteItem(re.compile('.*'),'dtn://next/','fake')])
    exc=None
    try:
        a._cl_recv_bundle_finish('fake')(data,{})
        GLib.run_pending()
    except Exception as e:
        exc=e
    return a,cl,exc
def accepted(data):
    a,cl,exc=feed(data)
    return bool(a._seen_bundle_ident) or bool(cl.sent), exc
def quick(data):
    try:
        b=Bundle(data)
        return not b.check_all_crc()
    except Exception:
        return False
def spans(data):
    out=[]; pos=1
    for i,enc in enumerate(split_bundle(data)):
        it=cbor2.loads(enc)
        ct = it[2] if i==0 else it[3]
        if ct: out.append((pos,pos+len(enc)))
        pos+=len(enc)
    return out
