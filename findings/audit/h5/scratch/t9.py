import sys, traceback
sys.path.insert(0,'/tmp/hunt/out5'); sys.path.insert(0,'/tmp/hunt/out5/scratch')
from t6lib import *
rec=[1,[[[True,5000],[False],[False],[False]], 1, [1,'//src/'], [1000,1]]]
full=cbor2.dumps(rec)
print(len(full), full.hex())
for off in range(0,len(full)):
  for ln in (1,2,5,10,len(full)-off):
    if off+ln>len(full) or (off==0 and ln==len(full)): continue
    part=full[off:off+ln]
    data=bundle(primary(flags=2|1,crc_type=2,frag=(off,len(full))),[canon(1,1,0,2,part)])
    try:
        b=Bundle(data)
        re_=bytes(b)
        if re_!=data:
            print('off',off,'len',ln,'REENC DIFFERS part',part.hex(),'->',Bundle(re_).blocks[0].btsd.hex() if True else '')
    except Exception as e:
        print('off',off,'len',ln,'EXC',type(e).__name__,str(e)[:80])
