import sys, traceback
sys.path.insert(0,'/tmp/hunt/out5'); sys.path.insert(0,'/tmp/hunt/out5/scratch')
from t6lib import *
for dest in ('ipn:x.y','mailto:a@b','dtn://ok/','ipn:1'):
    a,cl=mkagent('dtn://me/', tx=[TxRouteItem(re.compile('.*'),'dtn://next/','fake')])
    try:
        a.ping(dest, 5)
        GLib.run_pending()
    except Exception as e:
        print(dest,'exc',repr(e))
    for s in cl.sent:
        print(dest, [cbor2.loads(x) for x in split_bundle(s)][0])
