import sys
sys.path.insert(0,'/tmp/hunt/out5'); sys.path.insert(0,'/tmp/hunt/out5/scratch')
from t6lib import *
def seq(items): return b''.join(cbor2.dumps(i) for i in items)
for ct in (1,2):
    data = bundle(primary(flags=0x44001|0x10000,crc_type=ct,rpt='ipn:7.0',dst='ipn:5.1',src='dtn://src/a/b',ts=(0,3),frag=(0,100)),
      [canon(6,2,0,ct,cbor2.dumps([2,[9,0]])),canon(7,3,1,ct,cbor2.dumps(300)),canon(10,4,0,ct,cbor2.dumps([30,2])),
       canon(11,5,0,ct,seq([[1],1,1,[1,'//src/'],[[1,5]],[[[1,b'mac']]]])),canon(99,6,0,ct,b'\x01\x02'),canon(1,1,0,ct,b'payload-data')])
    assert quick(data)
    for (s,e) in spans(data):
        for bit in range(s*8,e*8):
            c=bytearray(data); c[bit//8]^=(0x80>>(bit%8)); c=bytes(c)
            if quick(c):
                acc,exc=accepted(c)
                print('ct',ct,'octet',bit//8,'%02x->%02x'%(data[bit//8],c[bit//8]),'context',data[max(0,bit//8-4):bit//8+3].hex(),'accepted',acc)
print('done')
