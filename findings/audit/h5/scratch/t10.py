import sys, traceback
sys.path.insert(0,'/tmp/hunt/out5'); sys.path.insert(0,'/tmp/hunt/out5/scratch')
from t6lib import *
pct=bct=2
data = bundle(primary(flags=0x44000|0x10000,crc_type=pct,rpt='dtn://src/',dst='ipn:5.1',ts=(1000,0)),[canon(10,2,0,bct,cbor2.dumps([30,2])),canon(7,3,1,1,cbor2.dumps(0)),canon(1,1,0,bct,b'payload-data')])
print(data.hex())
def show(c):
    a,cl,exc=feed(c)
    b=Bundle(c)
    print('  decoded dst=%r src=%r nblocks=%d types=%s'%(b.primary.destination,b.primary.source,len(b.blocks),[x.type_code for x in b.blocks]))
    print('  seen',a._seen_bundle_ident,'exc',exc)
    for s in cl.sent:
        blocks=split_bundle(s)
        print('  sent:',[cbor2.loads(x) for x in blocks])
for idx,new in ((11,0x42),(12,0xe5),(45,0xff),(45,0x88)):
    c=bytearray(data); c[idx]=new; c=bytes(c)
    print(idx,'%02x->%02x'%(data[idx],new), 'burst bits', bin(data[idx]^new))
    show(c)
# single-bit: crc_type of age block 01->00
age=canon(7,3,1,1,cbor2.dumps(0)); i=data.index(age)
c=bytearray(data); assert c[i+4]==1; c[i+4]=0; c=bytes(c)
print('age crc_type 01->00'); show(c)
