import sys
sys.path.insert(0,'/tmp/hunt/out5'); sys.path.insert(0,'/tmp/hunt/out5/scratch')
from t6lib import *
data = bundle(primary(flags=0x44000|0x10000,crc_type=2,rpt='dtn://src/',dst='dtn://far/x',ts=(1000,0)),[canon(10,2,0,2,cbor2.dumps([30,2])),canon(1,1,0,2,b'\x01\x02\x03')])
print(data.hex())
def sub(data, frm, to, nth=0):
    idx=-1
    for _ in range(nth+1): idx=data.index(frm, idx+1)
    return data[:idx]+to+data[idx+len(frm):], idx
# (a) payload block flags 00 -> f4
pay=canon(1,1,0,2,b'\x01\x02\x03'); 
c=data.replace(pay, pay[:3]+b'\xf4'+pay[4:]); assert c!=data
print('flags 00->f4', quick(c), accepted(c))
# (b) btsd 43 -> 83
c=data.replace(pay, pay[:5]+b'\x83'+pay[6:]); assert c!=data
print('btsd 43->83', quick(c), accepted(c))
# crc type 02->f5? no (2). seqno 00->f4 in primary timestamp
pri=primary(flags=0x44000|0x10000,crc_type=2,rpt='dtn://src/',dst='dtn://far/x',ts=(1000,0))
i=pri.index(bytes.fromhex('821903e800'))+4
c=data.replace(pri, pri[:i]+b'\xf4'+pri[i+1:]); assert c!=data
print('seqno 00->f4', quick(c), accepted(c))
a,cl,exc=feed(c); print(a._seen_bundle_ident, [x.hex() for x in cl.sent][:1])
# lifetime 19 2710 -> f9 xxxx (half float 10000 = 0x70e2)
i=pri.index(bytes.fromhex('192710'))
c=data.replace(pri, pri[:i]+bytes.fromhex('f970e2')+pri[i+3:]); assert c!=data
print('lifetime uint->half float', quick(c), accepted(c))
