import sys, traceback
sys.path.insert(0,'/tmp/hunt/out5'); sys.path.insert(0,'/tmp/hunt/out5/scratch')
from t6lib import *
# A receives a bundle requesting reception report, with report-to dtn://src/ ; A's route to src has small MTU
data = bundle(primary(flags=0x4000|0x40,crc_type=2,rpt='dtn://reports.example/collector/inbox',src='dtn://source-node.example/app',dst='dtn://a/',ts=(1000,0)),[canon(1,1,0,2,b'hello')])
for mtu in (None,100,110,120):
    a,cl=mkagent('dtn://a/', tx=[TxRouteItem(re.compile('.*'),'dtn://next/','fake',mtu=mtu)])
    a._cl_recv_bundle_finish('fake')(data,{})
    GLib.run_pending()
    print('mtu',mtu,'errors',GLib.ERRORS,'sent',[len(s) for s in cl.sent])
    for s in cl.sent:
        blocks=[cbor2.loads(x) for x in split_bundle(s)]
        print('   flags %x'%blocks[0][1], 'frag', blocks[0][8:-1], 'payload', blocks[-1][4].hex())
        try:
            b=Bundle(s); print('   B decodes; re-encode same:', bytes(b)==s)
        except Exception as e:
            print('   B decode EXC', type(e).__name__, e)
