import sys, traceback
sys.path.insert(0,'/tmp/hunt/out5'); sys.path.insert(0,'/tmp/hunt/out5/scratch')
from t6lib import *
def seq(items): return b''.join(cbor2.dumps(i) for i in items)
bts={1:b"x"}
for t,btsd in bts.items():
  for ct in (1,2):
    blk=canon(t,2 if t!=1 else 1,0,ct,btsd)
    blocks=[blk,canon(1,1,0,0,b'pay')] if t!=1 else [blk]
    data=bundle(primary(crc_type=0,rpt='dtn://src/'),blocks)
    i=data.index(blk)+4
    assert data[i]==ct
    c=bytearray(data); c[i]=0; c=bytes(c)
    acc,exc=accepted(c)
    print('type',t,'crc',ct,'->0 accepted',acc, type(exc).__name__ if exc else None)
# primary
for ct in (1,2):
    data=bundle(primary(crc_type=ct),[canon(1,1,0,0,b'pay')])
    c=bytearray(data); assert c[4]==ct; c[4]=0
    print('primary crc',ct,'->0',accepted(bytes(c)))
