import sys, traceback
sys.path.insert(0,'/tmp/hunt/out5'); sys.path.insert(0,'/tmp/hunt/out5/scratch')
import bp_harness
from bp.encoding import *
from common import *
import cbor2
def seq(items): return b''.join(cbor2.dumps(i) for i in items)
cases = {
 'bib-nop': [[1],1,0,[1,'//src/'],[[[1,b'mac']]]],
 'bib-par': [[1],1,1,[1,'//src/'],[[1,5],[3,0]],[[[1,b'mac']]]],
 'bib-2tgt': [[1,2],1,1,[2,[1,2]],[[1,5]],[[[1,b'mac']],[[1,b'mac2']]]],
 'bib-emptypar': [[1],1,1,[1,'//src/'],[],[[[1,b'mac']]]],
 'bcb': [[1],2,1,[1,'//src/'],[[1,b'iviviviviviv'],[2,3],[4,7]],[[[1,b'tagtagtagtagtagt']]]],
 'bcb-nores': [[1],2,1,[1,'//src/'],[[1,b'iv']],[[]]],
 'srcnone': [[1],1,0,[1,0],[[[1,b'mac']]]],
 'ctx-big': [[0],2**32,0,[1,'//src/'],[[[2**40,[1,2,3]]]]],
 'res-map': [[1],3,0,[1,'//src/'],[[[1,{1:2}],[2,None],[3,False],[4,'t']]]],
 'flags-reserved': [[1],1,2,[1,'//src/'],[[[1,b'mac']]]],
 'flags-3': [[1],1,3,[1,'//src/'],[[1,1]],[[[1,b'mac']]]],
}
for name,items in cases.items():
    for t in (11,12):
        btsd=seq(items)
        data=bundle(primary(),[canon(t,2,0,2,btsd),canon(1,1,0,2,b'pay')])
        try:
            b=Bundle(data)
            blk=b.blocks[0]
            ok1 = bytes(b)==data
            p=blk.payload
            re_=bytes(p)
            print(name,t,'bundle-rt',ok1,'asb-rt',re_==btsd, type(p).__name__)
            if re_!=btsd:
                print('   orig',items); print('   got ',cbor2.loads(b'\x9f'+re_+b'\xff'))
            else:
                got=[p.targets,p.context_id,int(p.context_flags),p.source]
                #print('   ',got, p.parameters, p.results)
        except Exception as e:
            traceback.print_exc(limit=-3)
