import sys
sys.path.insert(0,'/tmp/hunt/out5'); sys.path.insert(0,'/tmp/hunt/out5/scratch')
from t6lib import *
import struct
# wrong width crc, missing crc, crc type 3
good=bundle(primary(crc_type=2),[canon(1,1,0,2,b'pay')])
items=[1,1,0,2,b'pay']
print('missing crc item', accepted(bundle(primary(crc_type=2),[cbor2.dumps(items)])))
print('2-octet crc w/ type 2', accepted(bundle(primary(crc_type=2),[cbor2.dumps(items+[b'\0\0'])])))
print('crc type 3', accepted(bundle(primary(crc_type=2),[cbor2.dumps([1,1,0,3,b'pay',b'\0\0\0\0'])])))
print('crc type 0 with 6 items (payload)', accepted(bundle(primary(crc_type=2),[cbor2.dumps([1,1,0,0,b'pay',b'\0\0\0\0'])])))
# huge creation time
print('huge dtntime', accepted(bundle(primary(crc_type=2,ts=(2**63,0)),[canon(1,1,0,2,b'pay')])))
# ts 0 + age block forwarded?
a,cl,exc=feed(bundle(primary(crc_type=2,ts=(0,5)),[canon(7,2,0,0,cbor2.dumps(100)),canon(1,1,0,2,b'pay')]))
print('ts0 fwd block types',[[cbor2.loads(b)[0] for b in split_bundle(s)[1:]] for s in cl.sent])
