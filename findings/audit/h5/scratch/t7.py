import sys, traceback, re, random, time
sys.path.insert(0,'/tmp/hunt/out5'); sys.path.insert(0,'/tmp/hunt/out5/scratch')
import bp_harness
from bp_harness import *
from common import *
import cbor2
from t6lib import *
MAXL=int(sys.argv[1]) if len(sys.argv)>1 else 8
pct,bct=2,2
data = bundle(primary(flags=0x44000|0x10000,crc_type=pct,rpt='dtn://src/',dst='ipn:5.1',ts=(1000,0)),[canon(10,2,0,bct,cbor2.dumps([30,2])),canon(7,3,1,1,cbor2.dumps(0)),canon(1,1,0,bct,b'payload-data')])
assert quick(data)
n=int.from_bytes(data,'big'); nb=len(data)*8
found={}
t0=time.time(); cnt=0
for (s,e) in spans(data):
    for start in range(s*8,e*8):
        for L in range(1,MAXL+1):
            if start+L>e*8: break
            if L==1: pats=[1]
            else: pats=[(1<<(L-1))|(m<<1)|1 for m in range(1<<(L-2))]
            for p in pats:
                shift=nb-(start+L)
                c=(n^(p<<shift)).to_bytes(len(data),'big')
                cnt+=1
                if quick(c):
                    # describe changed octets
                    ch=[(i,data[i],c[i]) for i in range(len(data)) if data[i]!=c[i]]
                    key=tuple(ch)
                    if key not in found:
                        found[key]=1
                        acc,exc=accepted(c)
                        print('PASSES CRC CHECK burst len',L,'changes',[(i,'%02x->%02x'%(a,b)) for i,a,b in ch],'agent accepted:',acc)
print(cnt,'tried',time.time()-t0,'s', len(found),'found')
