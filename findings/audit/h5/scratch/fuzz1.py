import sys, random
sys.path.insert(0,'/tmp/hunt/out5'); sys.path.insert(0,'/tmp/hunt/out5/scratch')
import bp_harness
from bp.encoding import *
from common import *
import cbor2
rnd = random.Random(1)
def rint():
    return rnd.choice([0,1,23,24,255,256,65535,65536,2**32-1,2**32,2**64-1, rnd.randrange(0,1000)])
def reid():
    return rnd.choice(['dtn:none','dtn://a/','dtn://node/svc','dtn://n.o-d_e/a/b/c','ipn:1.2','ipn:0.0','ipn:%d.%d'%(rint(),rint()),
       'dtn://node/~mc', 'dtn://node/a?b=c', 'dtn://node/a#frag', 'dtn://node/a%20b', 'dtn://node//', 'dtn://node/a;b', 'dtn://NODE/Svc'])
bad=0
for i in range(3000):
    flags = rnd.choice([0,2,4,0x40,0x20,0x4000,0x10000,0x20000,0x40000, 0x100000, 0x8, 0x80, rnd.randrange(0,2**21)&~1 &~2])
    frag=None
    if rnd.random()<0.3:
        flags|=1; frag=(rint(),rint())
    pct = rnd.choice([0,1,2])
    dst,src,rpt=reid(),reid(),reid()
    ts=(rint(),rint()); life=rint()
    pri = primary(flags,pct,dst,src,rpt,ts,life,frag)
    blocks=[]
    num=2
    spec=[]
    for _ in range(rnd.randrange(0,4)):
        t = rnd.choice([6,7,10,11,12,99,192,2,3,1000])
        if t==6: btsd=cbor2.dumps(eid(reid()))
        elif t==7: btsd=cbor2.dumps(rint())
        elif t==10: btsd=cbor2.dumps([rint(),rint()])
        else: btsd=bytes(rnd.randrange(256) for _ in range(rnd.randrange(0,30)))
        bf=rnd.choice([0,1,2,4,0x10,0x17,0x20,0x40,0xff]); ct=rnd.choice([0,1,2])
        spec.append((t,num,bf,ct,btsd)); num+=1
    spec.append((1,1,rnd.choice([0,1,4]),rnd.choice([0,1,2]),bytes(rnd.randrange(256) for _ in range(rnd.randrange(0,40)))))
    data = bundle(pri,[canon(*s) for s in spec])
    try:
        b = Bundle(data)
        problems=[]
        p=b.primary
        if int(p.bundle_flags)!=flags: problems.append(('flags',p.bundle_flags,flags))
        if p.destination!=dst: problems.append(('dst',p.destination,dst))
        if p.source!=src: problems.append(('src',p.source,src))
        if p.report_to!=rpt: problems.append(('rpt',p.report_to,rpt))
        if (p.create_ts.getfieldval('dtntime'),p.create_ts.seqno)!=ts: problems.append(('ts',))
        if p.getfieldval('lifetime')!=life: problems.append(('life',))
        if frag and (p.fragment_offset,p.total_app_data_len)!=frag: problems.append(('frag',))
        if len(b.blocks)!=len(spec): problems.append(('nblocks',))
        for blk,s in zip(b.blocks,spec):
            got=(blk.type_code,blk.block_num,int(blk.block_flags),int(blk.crc_type),blk.btsd)
            if got!=s: problems.append(('blk',got,s))
        re_ = bytes(b)
        if re_!=data: problems.append(('reenc',re_.hex(),data.hex()))
        f=b.check_all_crc()
        if f: problems.append(('crc',f))
    except Exception as e:
        problems=[('exc',repr(e))]
    if problems:
        bad+=1
        if bad<15: print(i,dst,src,rpt,problems[:3])
print('bad',bad)
