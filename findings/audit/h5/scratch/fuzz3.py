import sys, random, traceback
sys.path.insert(0,'/tmp/hunt/out5'); sys.path.insert(0,'/tmp/hunt/out5/scratch')
import bp_harness
from bp.encoding import *
from common import *
import cbor2
rnd = random.Random(2)
def rint():
    return rnd.choice([0,1,23,24,255,256,65535,2**32,2**64-1, rnd.randrange(0,1000)])
def reid():
    return rnd.choice(['dtn:none','dtn://a/','dtn://node/svc','ipn:1.2','ipn:0.0'])
from collections import Counter
cnt=Counter(); shown=Counter()
def run(rec, label):
    data = bundle(primary(flags=2),[canon(1,1,0,2,cbor2.dumps(rec))])
    try:
        b=Bundle(data)
        re_=bytes(b)
        if re_!=data:
            key=(label,'reenc')
            cnt[key]+=1
            if shown[key]<3:
                shown[key]+=1; print(key, rec, '\n   got ', cbor2.loads(Bundle(re_).blocks[0].btsd) if True else '', )
        elif b.check_all_crc():
            cnt[(label,'crc')]+=1
        else: cnt[(label,'ok')]+=1
    except Exception as e:
        key=(label,'exc',type(e).__name__)
        cnt[key]+=1
        if shown[key]<3:
            shown[key]+=1; print(key, rec, repr(e))
for i in range(2000):
    infos=[]
    for _ in range(4):
        st=rnd.random()<0.5
        if st and rnd.random()<0.6: infos.append([True,rint()])
        else: infos.append([st])
    rec=[infos, rnd.choice([0,1,2,3,4,5,6,7,8,9,10,11,12,13,14,15,16,17,100,255]), eid(reid()), [rint(),rint()]]
    if rnd.random()<0.4: rec += [rint(),rint()]
    run([1,rec],'status rc=%d'%rec[1] if rec[1]>10 else 'status')
for content in [0,1,None,False,True,'', 'txt', b'', b'xy', [], [1,2], [[1],[2]], {}, {1:2}, 1.5, -3, [None], [0]]:
    for t in (2,3,4,99,65536):
        run([t,content],'other %r'%(content,))
for k,v in sorted(cnt.items(), key=str): print(k,v)
