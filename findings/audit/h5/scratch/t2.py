import sys, traceback
sys.path.insert(0,'/tmp/hunt/out5'); sys.path.insert(0,'/tmp/hunt/out5/scratch')
import bp_harness
from bp.encoding import *
from common import *
import scapy.packet
print(CanonicalBlock.payload_guess)
for t in (1,2,3,6,7,10,99,192,1000):
    for btsd in (b'\x05', b'\x41a', b'\xf4'):
        data=bundle(primary(),[canon(t,2,0,0,btsd),canon(1,1,0,0,btsd)])
        try:
            b=Bundle(data)
            if bytes(b)!=data: print(t,btsd,'reenc differs')
        except Exception as e:
            print(t,btsd,repr(e))
