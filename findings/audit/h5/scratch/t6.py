import sys, traceback, re, random
sys.path.insert(0,'/tmp/hunt/out5'); sys.path.insert(0,'/tmp/hunt/out5/scratch')
import bp_harness
from bp_harness import *
from common import *
import cbor2
def feed(data, dst_is_me=False):
    a,cl=mkagent('dtn://me/', rx=[RxRouteItem(re.compile('.*'),'forward')], tx=[TxRouteItem(re.compile('.*'),'dtn://next/','fake')])
    exc=None
    try:
        a._cl_recv_bundle_finish('fake')(data,{})
        GLib.run_pending()
    except Exception as e:
        exc=e
    return a,cl,exc
def accepted(data):
    a,cl,exc=feed(data)
    return bool(a._seen_bundle_ident) or bool(cl.sent), exc
def spans(data):
    '''(start,end) octet ranges of CRC-protected blocks'''
    out=[]; pos=1
    for i,enc in enumerate(split_bundle(data)):
        it=cbor2.loads(enc)
        ct = it[2] if i==0 else it[3]
        if ct: out.append((pos,pos+len(enc)))
        pos+=len(enc)
    return out
results=[]
for pct,bct in ((2,2),(1,1),(2,1),(1,2)):
    data = bundle(primary(flags=0x44000|0x10000,crc_type=pct,rpt='dtn://src/',dst='dtn://far/x',ts=(1000,0)),[canon(10,2,0,bct,cbor2.dumps([30,2])),canon(1,1,0,bct,b'payload-data')])
    ok,exc=accepted(data); assert ok and not exc
    for (s,e) in spans(data):
        for bit in range(s*8,e*8):
            c=bytearray(data); c[bit//8]^=(0x80>>(bit%8))
            acc,exc=accepted(bytes(c))
            if acc:
                results.append((pct,bct,bit//8,bit%8,data[bit//8],c[bit//8]))
                print('ACCEPTED single-bit flip: crc types',pct,bct,'octet',bit//8,'%02x->%02x'%(data[bit//8],c[bit//8]))
print(len(results))
