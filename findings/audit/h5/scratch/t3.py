import sys, traceback
sys.path.insert(0,'/tmp/hunt/out5'); sys.path.insert(0,'/tmp/hunt/out5/scratch')
import bp_harness
from bp.encoding import *
from common import *
import cbor2
rec=[1,[[[True],[False],[False],[False]], 11, [1,'//src/'], [1000,1]]]
data = bundle(primary(flags=2),[canon(1,1,0,2,cbor2.dumps(rec))])
try:
    Bundle(data)
except Exception:
    traceback.print_exc()
