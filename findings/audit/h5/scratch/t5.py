import sys, traceback, re
sys.path.insert(0,'/tmp/hunt/out5'); sys.path.insert(0,'/tmp/hunt/out5/scratch')
import bp_harness
from bp_harness import *
from common import *
import cbor2
def validate(data):
    probs=[]
    try:
        blocks=split_bundle(data)
    except Exception as e:
        return ['split: %r'%e]
    pri=cbor2.loads(blocks[0])
    if not (isinstance(pri,list) and 8<=len(pri)<=11): probs.append('primary len %s'%len(pri))
    exp=8+(2 if pri[1]&1 else 0)+(1 if pri[2] else 0)
    if len(pri)!=exp: probs.append('primary len %d expected %d'%(len(pri),exp))
    if data[1]&0xe0!=0x80 : probs.append('primary not definite array')
    nums=set()
    for i,enc in enumerate(blocks):
        if not check_block_crc(enc): probs.append('crc bad block idx %d'%i)
        if i==0: continue
        it=cbor2.loads(enc)
        if not isinstance(it,list) or len(it) not in (5,6): probs.append('canon len'); continue
        if len(it)!= (6 if it[3] else 5): probs.append('canon len vs crc type')
        if it[1] in nums: probs.append('dup blocknum %d'%it[1])
        nums.add(it[1])
        if not isinstance(it[4],bytes): probs.append('btsd not bytes: %r'%(it[4],))
        if it[0]==1 and i!=len(blocks)-1: probs.append('payload not last')
        if it[0]==1 and it[1]!=1: probs.append('payload num %d'%it[1])
        if it[0]!=1 and it[1]<2: probs.append('ext num %d'%it[1])
    if cbor2.loads(blocks[-1])[0]!=1: probs.append('last block is not payload')
    return probs
def fwd(data, mtu=None, node='dtn://me/'):
    a,cl=mkagent(node, rx=[RxRouteItem(re.compile('.*'),'forward')], tx=[TxRouteItem(re.compile('.*'),'dtn://next/','fake',mtu=mtu)])
    a._cl_recv_bundle_finish('fake')(data,{})
    GLib.run_pending()
    return a,cl
tests={}
for pct in (0,1,2):
  for bct in (0,1,2):
    tests['plain %d %d'%(pct,bct)] = bundle(primary(flags=0x44040|0x10000|0x4000|0x20000,crc_type=pct,rpt='dtn://src/'),[canon(1,1,0,bct,b'p'*50)])
    tests['ext %d %d'%(pct,bct)] = bundle(primary(crc_type=pct),[canon(6,2,0,bct,cbor2.dumps([1,'//prev/'])),canon(7,3,0,bct,cbor2.dumps(5)),canon(10,4,0,bct,cbor2.dumps([30,2])),canon(99,5,0,bct,b'unk'),canon(1,1,0,bct,b'p'*50)])
    tests['ts0 %d %d'%(pct,bct)] = bundle(primary(crc_type=pct,ts=(0,1)),[canon(7,3,0,bct,cbor2.dumps(5)),canon(1,1,0,bct,b'p'*50)])
    tests['frag %d %d'%(pct,bct)] = bundle(primary(flags=1,crc_type=pct,frag=(10,100)),[canon(1,1,0,bct,b'p'*50)])
    tests['big %d %d'%(pct,bct)] = bundle(primary(crc_type=pct,rpt='dtn://src/',flags=0x10000),[canon(99,7,1,bct,b'rep'),canon(98,8,0,bct,b'norep'),canon(1,1,0,bct,b'p'*500)])
for name,data in tests.items():
    assert not validate(data), (name, validate(data))
    for mtu in (None,200):
        a,cl=fwd(data,mtu)
        if GLib.ERRORS: print(name,mtu,'ERRORS',GLib.ERRORS)
        if not cl.sent: print(name,mtu,'nothing sent')
        for out in cl.sent:
            p=validate(out)
            if p: print(name,mtu,p, out.hex())
print('done')
