import sys, traceback
sys.path.insert(0,'/tmp/hunt/out5'); sys.path.insert(0,'/tmp/hunt/out5/scratch')
import bp_harness
from bp.encoding import *
from common import *
for t,btsd in [(99,b'\x05'),(99,b'\x18'),(99,b'hello'),(192,b'\xf4'),(2,b'\x41a'), (99, b''), (99,b'\x80'), (99,b'\x81\x01')]:
    data=bundle(primary(),[canon(t,2,0,0,btsd),canon(1,1,0,0,b'pay')])
    try:
        b=Bundle(data)
        print(t,btsd,'ok', bytes(b)==data, repr(b.blocks[0].payload))
    except Exception as e:
        traceback.print_exc(limit=-6)
