'''Independent RFC 9171 encoder helpers (cbor2 + own CRC), no project code.'''
import cbor2, struct

def crc32c(data):
    crc = 0xFFFFFFFF
    for b in data:
        crc ^= b
        for _ in range(8):
            crc = (crc >> 1) ^ (0x82F63B78 if crc & 1 else 0)
    return crc ^ 0xFFFFFFFF

def crc16x25(data):
    crc = 0xFFFF
    for b in data:
        crc ^= b
        for _ in range(8):
            crc = (crc >> 1) ^ (0x8408 if crc & 1 else 0)
    return crc ^ 0xFFFF

def with_crc(items, crc_type):
    '''items: list of block fields without CRC. returns encoded block bytes.'''
    if crc_type == 0:
        return cbor2.dumps(items)
    width = {1: 2, 2: 4}[crc_type]
    zero = cbor2.dumps(items + [b'\0' * width])
    val = crc16x25(zero) if crc_type == 1 else crc32c(zero)
    return cbor2.dumps(items + [struct.pack('>H' if crc_type == 1 else '>L', val)])

def eid(text):
    if text == 'dtn:none':
        return [1, 0]
    if text.startswith('dtn:'):
        return [1, text[4:]]
    if text.startswith('ipn:'):
        return [2, [int(p) for p in text[4:].split('.')]]
    raise ValueError(text)

def primary(flags=0, crc_type=2, dst='dtn://far/x', src='dtn://src/', rpt='dtn:none', ts=(1000, 1), life=10000, frag=None):
    items = [7, flags, crc_type, eid(dst), eid(src), eid(rpt), list(ts), life]
    if frag is not None:
        items += list(frag)
    return with_crc(items, crc_type)

def canon(type_code, num, flags, crc_type, btsd):
    return with_crc([type_code, num, flags, crc_type, btsd], crc_type)

def bundle(pri, blocks):
    return b'\x9f' + pri + b''.join(blocks) + b'\xff'

def check_block_crc(enc):
    '''Independent CRC verification of one encoded block. returns True if ok.'''
    items = cbor2.loads(enc)
    is_pri = isinstance(items[3], list)
    crc_type = items[2] if is_pri else items[3]
    if crc_type == 0:
        return True
    width = {1: 2, 2: 4}[crc_type]
    got = items[-1]
    # zero the CRC octets in place (last `width` octets of the block)
    zero = enc[:-width] + b'\0' * width
    val = crc16x25(zero) if crc_type == 1 else crc32c(zero)
    return got == struct.pack('>H' if crc_type == 1 else '>L', val)

def split_bundle(data):
    '''Independent split of an encoded bundle into encoded blocks.'''
    import io
    assert data[0] == 0x9f and data[-1] == 0xff, 'not indefinite array'
    body = data[1:-1]
    bio = io.BytesIO(body)
    dec = cbor2.CBORDecoder(bio)
    out = []
    while bio.tell() < len(body):
        start = bio.tell()
        dec.decode()
        out.append(body[start:bio.tell()])
    return out
