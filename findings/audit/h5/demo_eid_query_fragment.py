#!/usr/bin/env python
'''C02: a dtn: EID whose demux contains '?' or '#' (legal: demux = *VCHAR, RFC 9171 4.2.5.1.1)
does not survive decode -> re-encode, and a valid CRC-protected bundle carrying it is
rejected by the agent's own CRC check.
exit 1 = defect shown, 0 = not shown.'''
import os, sys
sys.path.insert(0, os.path.dirname(os.path.abspath(__file__)))
import re
import bp_harness
from bp_harness import *
from common import primary, canon, bundle, split_bundle, check_block_crc

bad = 0
for eid_txt in ('dtn://node/app?x=1', 'dtn://node/app#part', 'dtn://node/q?'):
    data = bundle(primary(crc_type=2, dst=eid_txt, src='dtn://src/'), [canon(1, 1, 0, 2, b'hello')])
    # the input is good as an independent implementation sees it
    assert all(check_block_crc(b) for b in split_bundle(data))
    b = Bundle(data)
    reenc = bytes(b)
    print('EID %-22s decoded as %-22r re-encode identical: %s' % (eid_txt, b.primary.destination, reenc == data))
    if reenc != data:
        print('   expected primary', data[1:40].hex())
        print('   got      primary', reenc[1:40].hex())
        bad += 1
    fails = b.check_all_crc()
    print('   check_all_crc() on this VALID bundle reports failed blocks:', fails, '(expected: none)')
    if fails:
        bad += 1
    # agent level: a valid bundle is silently dropped
    a, cl = mkagent('dtn://me/', rx=[RxRouteItem(re.compile('.*'), 'forward')],
                    tx=[TxRouteItem(re.compile('.*'), 'dtn://next/', 'fake')])
    a._cl_recv_bundle_finish('fake')(data, {})
    GLib.run_pending()
    print('   agent forwarded it: %s (expected True)' % bool(cl.sent))
    if not cl.sent:
        bad += 1

# same bundle without CRC: accepted, but forwarded with a different destination
data = bundle(primary(crc_type=0, dst='dtn://node/app?x=1', src='dtn://src/'), [canon(1, 1, 0, 0, b'hello')])
a, cl = mkagent('dtn://me/', rx=[RxRouteItem(re.compile('.*'), 'forward')],
                tx=[TxRouteItem(re.compile('.*'), 'dtn://next/', 'fake')])
a._cl_recv_bundle_finish('fake')(data, {})
GLib.run_pending()
import cbor2
for s in cl.sent:
    dst = cbor2.loads(split_bundle(s)[0])[3]
    print('no-CRC bundle forwarded with destination', dst, "(expected [1, '//node/app?x=1'])")
    if dst != [1, '//node/app?x=1']:
        bad += 1
print('DEFECT SHOWN' if bad else 'not shown')
sys.exit(1 if bad else 0)
