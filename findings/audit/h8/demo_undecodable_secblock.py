#!/usr/bin/env python
''' C12: a security block (type 11 BIB / type 12 BCB) whose block-type-specific data
cannot be decoded as an Abstract Security Block is silently skipped, so the bundle is
delivered although it carries a security block that was never verified.

Control: a BIB made with the wrong key is rejected (delete, reason 15).
Defect : the very same forged BIB with its last 10 octets cut off (or replaced by 0x00)
         is ignored and the bundle reaches the application, report says "delivered".
'''
import sys
from common import *

good = symkey(b'k1', b'\x01' * 32)     # key the receiver holds
forged = symkey(b'k1', b'\x66' * 32)   # attacker's key, same key id


def make(kind, mutate=None):
    ctr = base_ctr(flags=F.REQ_DELIVERY_REPORT | F.REQ_DELETION_REPORT, payload=b'forged payload')
    if kind == 'bib':
        ctx = src_context(keys=[forged], templates=[bpsec.SecOperation(sec_type='bib', role='source', priv_key_id=b'k1')])
        ctx.apply_bib(ctr)          # real source-side code, wrong key
    else:
        k = symkey(b'k2', b'\x67' * 16, alg=algorithms.A128GCM, ops=(keyops.EncryptOp, keyops.DecryptOp))
        ctx = src_context(keys=[k], templates=[bpsec.SecOperation(sec_type='bcb', role='source', priv_key_id=b'k2', content_iv=[b'\x00' * 12])])
        ctx.apply_bcb(ctr)          # key the receiver does not have
    if mutate:
        mutate(ctr)
    return finish(ctr)


def secblk(ctr):
    return (ctr.block_type(11) + ctr.block_type(12))[0]


def truncate(ctr):
    blk = secblk(ctr)
    enc = bytes(blk.payload)
    blk.remove_payload()
    blk.setfieldval('btsd', enc[:-10])


def zero(ctr):
    blk = secblk(ctr)
    blk.remove_payload()
    blk.setfieldval('btsd', b'\x00')


bad = False
for kind in ('bib', 'bcb'):
    for name, mut, is_control in (('intact (control)', None, True), ('truncated by 10 octets', truncate, False), ('BTSD = 0x00', zero, False)):
        for accept in (False, True):
            agent, cl, got = rx_agent(keys=[good], accept=accept)
            ctr = recv(agent, make(kind, mut))
            rep = [rec[1][0] for (_b, rec) in reports(cl)]
            delivered = bool(got)
            print('%s %-24s accept=%-5s actions=%s reason=%s app got=%s report[rcv,fwd,dlv,del]=%s' % (
                kind.upper(), name, accept, list(ctr.actions), ctr.status_reason, got, rep))
            if is_control:
                assert not delivered and 'delete' in ctr.actions, 'control should be rejected'
            elif delivered or 'delete' not in ctr.actions:
                bad = True

print()
print('expected: every variant above is withheld from the application and marked deleted with a security reason')
if bad:
    print('OBSERVED: the variants with an undecodable security block were DELIVERED (no delete, no reason)')
    sys.exit(1)
print('observed: all rejected')
sys.exit(0)
