''' Shared helpers for the out8 demos (imports the real code through bp_harness). '''
import re, cbor2
import bp_harness as H
from bp_harness import GLib, mkagent, mkbundle
import bp.app.bpsec
from bp.config import Config, RxRouteItem, TxRouteItem
from bp.encoding import *
from bp.util import BundleContainer
import sys; bpsec = sys.modules["bp.app.bpsec"]
from pycose.keys import SymmetricKey, keyops
from pycose import algorithms, headers

F = PrimaryBlock.Flag

def symkey(kid, k, alg=algorithms.HMAC256, ops=(keyops.MacCreateOp, keyops.MacVerifyOp)):
    return SymmetricKey(k=k, optional_params={'KID': kid, 'ALG': alg, 'KEY_OPS': list(ops)})

def src_context(node='dtn://src/', keys=(), templates=(), tgt_types=(1,)):
    ''' A real CoseContext configured as a security source. '''
    ctx = bpsec.CoseContext()
    ctx._config = Config(node_id=node)
    for key in keys:
        ctx.sym_key_store[key.kid] = key
    ctx.sec_assoc.append(bpsec.SecAssociation(
        src_pat=re.compile('.*'), dst_pat=re.compile('.*'),
        tgt_blk_types=list(tgt_types), templates=list(templates)))
    return ctx

def base_ctr(dst='dtn://me/app', src='dtn://src/', flags=0, payload=b'hello world', report_to='dtn://src/'):
    ctr = BundleContainer()
    ctr.bundle.primary = PrimaryBlock(bundle_flags=flags, destination=dst, source=src, report_to=report_to,
        create_ts=Timestamp(dtntime=1000, seqno=1), lifetime=10000, crc_type=2)
    ctr.bundle.blocks = [CanonicalBlock(type_code=1, block_num=1, crc_type=2, btsd=payload)]
    ctr.reload()
    return ctr

def finish(ctr):
    ctr.bundle.fill_fields(); ctr.bundle.update_all_crc()
    return bytes(ctr.bundle)

def rx_agent(node='dtn://me/', keys=(), accept=False, rx=(), tx=()):
    rx = list(rx) + [RxRouteItem(eid_pattern=re.compile(r'^dtn://me/app'), action='deliver')]
    tx = list(tx) + [TxRouteItem(eid_pattern=re.compile(r'^dtn://src/'), next_nodeid='dtn://src/', cl_type='fake')]
    agent, cl = mkagent(node, rx=rx, tx=tx)
    agent._config.accept_after_verify = accept
    ctx = agent._app['bpsec'].get_context(3)
    for key in keys:
        ctx.sym_key_store[key.kid] = key
    # spy application step at order 30, like the real applications
    got = []
    from bp.util import ChainStep
    def spy(ctr):
        if 'deliver' in ctr.actions:
            got.append(bytes(ctr.block_num(1).getfieldval('btsd')))
    agent._rx_chain.append(ChainStep(order=30.5, name='spy app', action=spy))
    agent._rx_chain.sort()
    return agent, cl, got

def recv(agent, data):
    ctr = BundleContainer(Bundle(data))
    agent.recv_bundle(ctr)
    GLib.run_pending()
    return ctr

def reports(cl):
    out = []
    for data in cl.sent:
        b = Bundle(data)
        if b.primary.bundle_flags & F.PAYLOAD_ADMIN:
            rec = cbor2.loads(bytes(b.blocks[-1].getfieldval('btsd')))
            out.append((b, rec))
    return out
