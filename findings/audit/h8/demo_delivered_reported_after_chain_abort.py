#!/usr/bin/env python
''' C19: a "delivered" status report is sent for a bundle that no application received.

recv_bundle() breaks out of the receive chain when a step raises, and afterwards treats
the routing decision 'deliver' (recorded by the routing steps at order -1/0) as the fact
of delivery.  Any exception in a step before the application steps therefore yields a
delivery report for a bundle that was dropped on the floor.

Trigger used here (legal encoding, hostile value): a fragment for a local endpoint whose
total application data length is 2**62 -> Fragment._reassemble does bytearray(2**62) ->
MemoryError -> chain abort.  Second trigger: a local fragment without block number 1
(KeyError in the same step).
'''
import sys
from common import *

ALL = F.REQ_DELETION_REPORT | F.REQ_DELIVERY_REPORT | F.REQ_FORWARDING_REPORT | F.REQ_RECEPTION_REPORT


def fragment(total, with_payload=True):
    b = Bundle(mkbundle(dst='dtn://me/app', flags=ALL, payload=b'0123456789'))
    b.primary.bundle_flags |= F.IS_FRAGMENT
    b.primary.fragment_offset = 0
    b.primary.total_app_data_len = total
    if not with_payload:
        b.blocks = [CanonicalBlock(type_code=192, block_num=2, crc_type=2, btsd=b'\x00')]
    b.primary.crc_value = None
    b.update_all_crc()
    return bytes(b)


bad = False
for label, data in (('control: fragment 10 of 20 octets', fragment(20)),
                    ('fragment with total length 2**62', fragment(2 ** 62)),
                    ('fragment without block number 1', fragment(20, with_payload=False))):
    agent, cl, got = rx_agent()
    ctr = recv(agent, data)
    reps = []
    for (_b, rec) in reports(cl):
        (rcv, fwd, dlv, dele) = [item[0] for item in rec[1][0]]
        reps.append(dict(received=rcv, forwarded=fwd, delivered=dlv, deleted=dele, reason=rec[1][1]))
    print('%-36s app got=%s reassembly pending=%d reports=%s' % (label, got, len(agent._app['fragment']._reassembly), reps))
    if any(r['delivered'] for r in reps) and not got:
        bad = True

print()
print('expected: no report asserts "delivered" unless an application got the bundle')
if bad:
    print('OBSERVED: delivered=True reported for bundles that no application received')
    sys.exit(1)
print('observed: no false delivered assertion')
sys.exit(0)
