#!/usr/bin/env python
''' C19: a bundle that could NOT be forwarded is reported as "forwarded".

The receive route says action=forward, but the transmit side fails (no TX route for the
destination, or the route MTU is too small even for fragments).  _do_fwd records
delete/NO_ROUTE - but the routing decision 'forward' was already written into the same
per-bundle action record by _do_rx_step, so create_report asserts it.

  A. all reports requested        -> report asserts forwarded AND deleted (reason 6)
  B. only forwarding report asked -> a report is emitted whose only assertion is
                                     "forwarded", for a bundle that went nowhere
'''
import sys
from common import *

ALL = F.REQ_DELETION_REPORT | F.REQ_DELIVERY_REPORT | F.REQ_FORWARDING_REPORT | F.REQ_RECEPTION_REPORT
to_reporter = TxRouteItem(eid_pattern=re.compile(r'^dtn://src/'), next_nodeid='dtn://src/', cl_type='fake')
fwd_rx = [RxRouteItem(eid_pattern=re.compile(r'^dtn://far/'), action='forward')]
far_ok = TxRouteItem(eid_pattern=re.compile(r'^dtn://far/'), next_nodeid='dtn://far/', cl_type='fake')
far_tiny = TxRouteItem(eid_pattern=re.compile(r'^dtn://far/'), next_nodeid='dtn://far/', cl_type='fake', mtu=60)


def run(label, flags, tx):
    agent, cl = mkagent('dtn://me/', rx=fwd_rx, tx=tx)
    agent.recv_bundle(BundleContainer(Bundle(mkbundle(dst='dtn://far/x', flags=flags, report_to='dtn://src/'))))
    GLib.run_pending()
    data_out = [d for d in cl.sent if not (Bundle(d).primary.bundle_flags & F.PAYLOAD_ADMIN)]
    reps = reports(cl)
    out = []
    for (_b, rec) in reps:
        (rcv, fwd, dlv, dele) = [item[0] for item in rec[1][0]]
        out.append(dict(received=rcv, forwarded=fwd, delivered=dlv, deleted=dele, reason=rec[1][1]))
    print('%-44s bundles transmitted towards dtn://far/: %d, reports: %s' % (label, len(data_out), out))
    return len(data_out), out


bad = False
n, reps = run('control: TX route exists, all requested', ALL, [to_reporter, far_ok])
assert n == 1 and reps == [dict(received=True, forwarded=True, delivered=False, deleted=False, reason=0)]

for label, flags, tx in (
        ('A  no TX route, all requested', ALL, [to_reporter]),
        ('A2 MTU 60 too small, all requested', ALL, [to_reporter, far_tiny]),
        ('B  no TX route, only forwarding requested', F.REQ_FORWARDING_REPORT, [to_reporter])):
    n, reps = run(label, flags, tx)
    assert n == 0, 'nothing may have been transmitted in these cases'
    if any(r['forwarded'] for r in reps):
        bad = True

print()
print('expected: nothing was forwarded, so no report asserts "forwarded"; in case B no report at all')
if bad:
    print('OBSERVED: reports assert forwarded=True for bundles that were never transmitted (A: together with deleted=True)')
    sys.exit(1)
print('observed: no false forwarded assertion')
sys.exit(0)
