#!/usr/bin/env python
''' C12 (second sentence): a bundle whose only security block verifies is NOT delivered
when that block has no security-context parameters (RFC 9172 3.6: the parameters field
is optional, flag bit 0 clear; the COSE context then uses its default AAD scope, which
the code itself supplies in CoseSecOpCtx.extract_secblk).

The same MAC is presented twice:
  A. BIB with the parameter list present and AAD scope spelled out {0:1,-1:1,-2:1}
  B. BIB with no parameter list at all (same scope by default -> same MAC input,
     except for nothing: the AAD does not cover the parameters)
A is delivered, B is deleted with reason 15 because check_secblk() iterates over None.
'''
import sys
import logging
from common import *
from pycose.messages import Mac0Message

k1 = symkey(b'k1', b'\x01' * 32)
SCOPE = {0: 1, -1: 1, -2: 1}


def make(with_params):
    ctr = base_ctr(flags=F.REQ_DELIVERY_REPORT | F.REQ_DELETION_REPORT)
    bib = CanonicalBlock(type_code=11, block_num=2)
    if with_params:
        asb = BlockIntegrityBlock(targets=[1], context_id=3, context_flags=1, source='dtn://src/',
                                  parameters=[TypeValuePair(type_code=5, value=SCOPE)])
    else:
        asb = BlockIntegrityBlock(targets=[1], context_id=3, context_flags=0, source='dtn://src/')
    # external AAD computed by the project's own code
    sec = bpsec.CoseSecOpCtx(ctr=ctr, sec_blk=bib, ssrc_enc=cbor2.dumps([1, '//src/']),
                             aad_scope=dict(SCOPE), addl_protected=b'', tgt_blk=ctr.block_num(1))
    aad = sec.get_external_aad()
    msg = Mac0Message(phdr={headers.Algorithm: k1.alg}, uhdr={headers.KID: k1.kid},
                      payload=bytes(ctr.block_num(1).btsd), external_aad=aad, key=k1)
    dec = cbor2.loads(msg.encode(tag=False))
    dec[2] = None
    asb.setfieldval('results', [TargetResultList(results=[TypeValuePair(type_code=17, value=cbor2.dumps(dec))])])
    bib.add_payload(asb)
    ctr.add_block(bib)
    return finish(ctr)


class Grab(logging.Handler):
    def __init__(self):
        super().__init__(level=logging.ERROR); self.msgs = []
    def emit(self, rec):
        self.msgs.append(rec.getMessage())


grab = Grab()
logging.disable(logging.NOTSET)
lg = logging.getLogger('bp.app.bpsec'); lg.addHandler(grab); lg.setLevel(logging.ERROR); lg.propagate = False

bad = False
for accept in (False, True):
    for with_params in (True, False):
        grab.msgs.clear()
        agent, cl, got = rx_agent(keys=[k1], accept=accept)
        ctr = recv(agent, make(with_params))
        print('accept=%-5s parameters %-7s -> actions=%s reason=%s app got=%s' % (
            accept, 'present' if with_params else 'absent', list(ctr.actions), ctr.status_reason, got))
        for m in grab.msgs:
            print('      log:', m)
        if with_params:
            assert got == [b'hello world'], 'control must verify'
        elif got != [b'hello world']:
            bad = True

print()
print('expected: both forms verify (same key, same MAC, same AAD) and are delivered')
if bad:
    print('OBSERVED: the BIB without parameters makes the bundle be DELETED (reason 15, TypeError in check_secblk)')
    sys.exit(1)
print('observed: both delivered')
sys.exit(0)
