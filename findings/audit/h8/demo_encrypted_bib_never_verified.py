#!/usr/bin/env python
''' C12: an integrity block that is itself encrypted by a confidentiality block (the
arrangement RFC 9172 3.9 demands when BIB and BCB share a target) is never verified.

The source (real CoseContext.apply_bib + apply_bcb) signs the payload with key k1 and
then encrypts BIB and payload with key k2.  The receiver holds k2, and accepts security
operations after verification (accept_after_verify on), so the BCB is verified, BIB and
payload are decrypted in place ... and the now readable BIB is never looked at, because
the block was undissectable when the bundle was decoded and BIBs are selected by their
dissected payload class.

  case 1: BIB made with the right key         -> delivered (fine), but BIB stays in the bundle
  case 2: BIB made with a WRONG key           -> must be deleted, IS delivered
  case 3: receiver does not have k1 at all    -> must be deleted, IS delivered
'''
import sys
from common import *

k1 = symkey(b'k1', b'\x01' * 32)
k1_wrong = symkey(b'k1', b'\x66' * 32)
k2 = symkey(b'k2', b'\x02' * 16, alg=algorithms.A128GCM, ops=(keyops.EncryptOp, keyops.DecryptOp))


def make(bibkey):
    ctr = base_ctr(flags=F.REQ_DELIVERY_REPORT | F.REQ_DELETION_REPORT)
    src_context(keys=[bibkey], templates=[
        bpsec.SecOperation(sec_type='bib', role='source', priv_key_id=b'k1')]).apply_bib(ctr)
    src_context(keys=[k2], tgt_types=(1, 11), templates=[
        bpsec.SecOperation(sec_type='bcb', role='source', priv_key_id=b'k2', content_iv=[b'\x00' * 12, b'\x01' * 12])]).apply_bcb(ctr)
    return finish(ctr)


def check_decrypted_bib(agent, ctr):
    ''' Verify the decrypted BIB by hand with the receiver's own context: what the agent should have done. '''
    found = [b for b in ctr.bundle.blocks if b.type_code == 11]
    if not found:
        return 'gone'
    blk = found[0]
    redo = CanonicalBlock(type_code=11, block_num=blk.block_num, block_flags=blk.block_flags) / BlockIntegrityBlock(bytes(blk.btsd))
    cosectx = agent._app['bpsec'].get_context(3)
    keep = agent._config.accept_after_verify
    agent._config.accept_after_verify = False
    try:
        return cosectx.verify_bib(ctr, redo)
    finally:
        agent._config.accept_after_verify = keep


bad = False
for name, bibkey, rxkeys, must_deliver in (
        ('1 BIB right key', k1, [k1, k2], True),
        ('2 BIB wrong key', k1_wrong, [k1, k2], False),
        ('3 BIB key unknown to receiver', k1, [k2], False)):
    agent, cl, got = rx_agent(keys=rxkeys, accept=True)
    ctr = recv(agent, make(bibkey))
    left = [(b.type_code, b.block_num, type(b.payload).__name__) for b in ctr.bundle.blocks]
    manual = check_decrypted_bib(agent, ctr)
    print('case %-32s actions=%s reason=%s app got=%s' % (name, list(ctr.actions), ctr.status_reason, got))
    print('     blocks left (type, num, dissected as): %s' % left)
    print('     verifying the decrypted BIB by hand gives: %s' % ({None: 'OK', 'gone': '(BIB was verified and removed by the agent)'}.get(manual) or 'FAILURE code %s' % manual))
    if must_deliver:
        assert got == [b'hello world']
        if any(t == 11 for (t, _n, _c) in left):
            print('     note: verified-and-accepted bundle still carries the BIB (never accepted/removed)')
    else:
        if got or 'delete' not in ctr.actions:
            bad = True

print()
print('expected: cases 2 and 3 are withheld from the application and marked deleted with a security reason')
if bad:
    print('OBSERVED: cases 2 and 3 were DELIVERED; the BIB was decrypted but never verified')
    sys.exit(1)
print('observed: rejected')
sys.exit(0)
