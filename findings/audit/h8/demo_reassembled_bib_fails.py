#!/usr/bin/env python
''' C12 (second sentence): a correctly signed bundle that was fragmented on the way is
deleted with "failed security operation" after reassembly, although nothing was altered
and the receiver holds the key.

source   : real CoseContext.apply_bib (AAD scope {0:1,-1:1}: primary block + target metadata)
forwarder: real Agent with a route MTU of 250 -> Fragment._create makes 2 fragments
receiver : real Agent; Fragment._reassemble rebuilds the bundle but rewrites the primary
           block (crc_type := 0, CRC removed).  The primary block is part of the AAD, so
           the MAC over the reassembled bundle can never match.

Control: the same bundle sent unfragmented is delivered.
'''
import sys
from common import *

k1 = symkey(b'k1', b'\x01' * 32)
PAYLOAD = bytes(range(200))


def make():
    ctr = base_ctr(flags=F.REQ_DELIVERY_REPORT | F.REQ_DELETION_REPORT, payload=PAYLOAD)
    src_context(keys=[k1], templates=[bpsec.SecOperation(sec_type='bib', role='source', priv_key_id=b'k1')]).apply_bib(ctr)
    return finish(ctr)


def through_forwarder(data, mtu):
    fwd, fcl = mkagent('dtn://fwd/', rx=[RxRouteItem(eid_pattern=re.compile('.*'), action='forward')],
                       tx=[TxRouteItem(eid_pattern=re.compile('.*'), next_nodeid='dtn://me/', cl_type='fake', mtu=mtu)])
    fwd.recv_bundle(BundleContainer(Bundle(data)))
    GLib.run_pending()
    assert not GLib.ERRORS, GLib.ERRORS
    return list(fcl.sent)


bad = False
for label, mtu in (('unfragmented (control)', None), ('fragmented, MTU 250', 250)):
    wire = through_forwarder(make(), mtu)
    for accept in (False, True):
        agent, cl, got = rx_agent(keys=[k1], accept=accept)
        for item in wire:
            agent.recv_bundle(BundleContainer(Bundle(item)))
            GLib.run_pending()
        rep = [(rec[1][0], rec[1][1]) for (_b, rec) in reports(cl)]
        ok = got == [PAYLOAD]
        print('%-24s %d bundle(s) on the wire, accept=%-5s app got payload=%s reports[(rcv,fwd,dlv,del),reason]=%s' % (
            label, len(wire), accept, ok, rep))
        if mtu is None:
            assert ok, 'control must be delivered'
        elif not ok:
            bad = True

print()
print('expected: the reassembled bundle verifies (key present, nothing altered) and is delivered')
if bad:
    print('OBSERVED: reassembled bundle DELETED with reason 15 (failed security operation)')
    sys.exit(1)
print('observed: delivered')
sys.exit(0)
