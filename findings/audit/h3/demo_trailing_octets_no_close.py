'''C09: the close decision is taken inside the per-message handler while the
octets that follow the message in the same read are still in the RX buffer,
and is_sess_idle() demands an empty RX buffer.  If the SESS_TERM reply (or the
final XFER_ACK) is followed in the same read by any other message - here the
KEEPALIVE the responder legally sends while it waits - the check fails, nothing
re-evaluates it later, and both endpoints stay open for ever (idle_time 0 =
default) although both SESS_TERMs were exchanged and nothing is in flight.
'''
import sys
import tcpcl_harness as H
from tcpcl_harness import GLib
from common import run_only, fire, timeouts, signals

A, B, sa, sb = H.established(keepalive_time=10)      # idle_time left at its default 0
A.terminate()
run_only(A)                 # SESS_TERM on the wire
run_only(B)                 # B replies (reply sits in A's receive queue; A's host is slow)
fire(B, '_keepalive_timeout')   # 10 s later B's keepalive interval elapses
run_only(B)                 # KEEPALIVE follows the reply in A's receive queue
print('octets waiting for A:', sa.rx.hex(), '(SESS_TERM reply + KEEPALIVE)')
GLib.run_pending()          # A reads both in one recv
state1 = (A._state, B._state, sa.closed, sb.closed)
# let a lot of virtual time pass: only keepalive timers exist, fire them 20 rounds
for _ in range(20):
    fire(A, '_keepalive_timeout'); fire(B, '_keepalive_timeout'); GLib.run_pending()
print('A in_term/idle:', A._in_term, A.is_sess_idle(), ' B in_term/idle:', B._in_term, B.is_sess_idle())
print('timers left A:', timeouts(A), 'B:', timeouts(B))
print('states after exchange:', state1, ' after 20 more keepalive intervals: closed A=%s B=%s' % (sa.closed, sb.closed))
print('escaped errors:', GLib.ERRORS)
print('EXPECTED: both SESS_TERM exchanged, nothing in flight -> both endpoints close without user action')
if not (sa.closed and sb.closed):
    print('OBSERVED: both endpoints terminating, idle, and still open (half-open session for ever)')
    sys.exit(1)
print('OBSERVED: closed')
sys.exit(0)
