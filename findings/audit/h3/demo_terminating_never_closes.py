'''C14: "an endpoint that is already terminating and hears nothing further still
ends by closing".  The idle timer is restarted by every send_message(), including
the endpoint's own KEEPALIVEs.  With keepalive < idle time (the only sensible
configuration; Config.from_file even defaults idle = 2*keepalive) a terminating
endpoint whose peer has gone silent re-arms its idle timer with each KEEPALIVE it
sends and never closes.
'''
import sys
import vclock
import tcpcl_harness as H
from tcpcl_harness import GLib
from tcpcl import messages
from common import run_only, timeouts

# control: keepalive disabled -> the terminating endpoint does close after idle_time
vclock.reset()
A, B, sa, sb = H.established(keepalive_time=0, idle_time=30)
A.terminate(0); run_only(A)
vclock.advance(31.0, only=A)
print('control (keepalive 0, idle 30): A closed at t<=31 s:', sa.closed)

vclock.reset()
A, B, sa, sb = H.established(keepalive_time=10, idle_time=30)
print('negotiated keepalive', A.get_session_parameters()['keepalive'], 'idle_time', A._idle_time)
sb.rx = b''
A.terminate(0)                 # t = 0: A sends SESS_TERM
run_only(A)
# B is dead silent from now on (never reads, never writes, TCP stays up)
log = []
vclock.advance(600.0, only=A, log=log)        # ten minutes = 20 idle periods
sent = [type(p.payload).__name__ for p in __import__('common').parse_stream(sb.rx)]
print('A timer events (t, handler), first 8:', log[:8])
print('A sent during 600 s of silence: %d x SESS_TERM, %d x KEEPALIVE' % (sent.count('SessionTerm'), sent.count('Keepalive')))
print('A heard nothing since t=0; at t=600 s: state=%s closed=%s' % (A._state, sa.closed))
print('EXPECTED: A closes once idle_time (30 s) passes with nothing heard while terminating')
if not sa.closed:
    print('OBSERVED: idle timer never fires (re-armed by A\'s own KEEPALIVE every 10 s); A stays open indefinitely')
    sys.exit(1)
sys.exit(0)
