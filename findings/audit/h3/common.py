'''Helpers shared by the demos (only drive the GLib stand-in; no project code is changed).'''
import tcpcl_harness as H
from tcpcl_harness import GLib
import dbus.service


def owner(func):
    return getattr(func, '__self__', None)


def run_only(obj, max_iter=10000):
    '''Run ready idle/io sources belonging to one endpoint only (the other host is "slow").'''
    n = 0
    while n < max_iter:
        ready = []
        for i, (kind, func, args, extra) in list(GLib.SOURCES.items()):
            if owner(func) is not obj:
                continue
            if kind == 'idle':
                ready.append(i)
            elif kind == 'io':
                sock, cond = extra
                if cond == GLib.IO_IN and sock is not None and sock.readable():
                    ready.append(i)
                if cond == GLib.IO_OUT and sock is not None and sock.writable():
                    ready.append(i)
        if not ready:
            return n
        for i in ready:
            if i in GLib.SOURCES:
                GLib._dispatch(i)
                n += 1
    return n


def step(obj, name):
    '''Dispatch exactly one source of `obj` whose callback is called `name`.'''
    for i, (kind, func, args, extra) in list(GLib.SOURCES.items()):
        if owner(func) is obj and func.__name__ == name:
            GLib._dispatch(i)
            return True
    return False


def timeouts(obj):
    return [(i, func.__name__, extra) for i, (kind, func, args, extra) in GLib.SOURCES.items()
            if kind == 'timeout' and owner(func) is obj]


def fire(obj, name):
    for i, (kind, func, args, extra) in list(GLib.SOURCES.items()):
        if kind == 'timeout' and owner(func) is obj and func.__name__ == name:
            GLib._dispatch(i)
            return True
    return False


def signals(name=None):
    return [(n, a) for (n, a) in dbus.service.EMITTED if name is None or n == name]


def parse_stream(data):
    '''Decode a stream of TCPCL messages (after the contact header) into a list of summaries.'''
    from tcpcl import messages
    out = []
    while data:
        pkt = messages.MessageHead(data)
        enc = bytes(pkt)
        out.append(pkt)
        data = data[len(enc):]
    return out
