'''C09: a bundle handed to send_bundle_data() after termination has begun is
accepted into the not-started queue.  _process_queue() rightly never starts
it, but nothing ever removes or reports it either (recv_sess_term() already
ran), and is_sess_idle() requires the queue to be empty - so after the
in-progress transfer completes and is acknowledged neither side ever closes.

Sequence: A sends transfer 1 (3 segments); A.terminate() mid-transfer; B replies;
the application on A queues bundle 2; transfer 1 completes and is ACKed.
'''
import sys
import tcpcl_harness as H
from tcpcl_harness import GLib
from common import run_only, step, fire, signals, timeouts

A, B, sa, sb = H.established(segment_size_tx_initial=100)
t1 = A.send_bundle_data(b'a' * 300)
step(A, '_process_queue')            # first segment queued, transfer 1 in progress
A.terminate()
run_only(A, max_iter=2)              # SESS_TERM + first segment leave
run_only(B)                          # B replies with SESS_TERM(reply), acks segment
step(A, '_avail_rx_notls')           # A has now received the reply: queue flush already happened
try:
    t2 = A.send_bundle_data(b'b' * 50)   # application queues one more bundle during 'ending'
except RuntimeError as err:          # (added after the repair: an immediate refusal is a report as not sent)
    print('send_bundle_data refused:', err); t2 = None
GLib.run_pending()
fin = {a[0]: a[2] for (n, a) in signals('send_bundle_finished')}
started = [a[0] for (n, a) in signals('send_bundle_started')]
print('started:', started, ' finished:', fin)
print('A: state=%s idle=%s queue=%s   B: state=%s idle=%s' % (A._state, A.is_sess_idle(), list(A.send_bundle_get_queue()), B._state, B.is_sess_idle()))
print('closed A=%s B=%s  timers A=%s B=%s  errors=%s' % (sa.closed, sb.closed, timeouts(A), timeouts(B), GLib.ERRORS))
print('EXPECTED: transfer 1 completes, bundle 2 is reported as not sent, both endpoints close')
rc = 0
if t2 is not None and t2 not in fin:
    print('OBSERVED: bundle 2 never started and never reported'); rc = 1
if not (sa.closed and sb.closed):
    print('OBSERVED: both SESS_TERM exchanged, transfer 1 acknowledged, yet the session stays open for ever (no timer, no pending work)'); rc = 1
sys.exit(rc)
