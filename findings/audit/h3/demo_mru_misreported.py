'''C14: "reports the peer's node ID and MRUs as announced".
get_session_parameters() clamps every int to 2**31-1.  The Transfer MRU this
very implementation announces by default is 2**64-1 (SessionInit.SIZE_MAX), so
every session reports a wrong peer_transfer_mru; a peer segment MRU above 2 GiB
is misreported the same way (while the sender logic itself uses the real value).
'''
import sys
import tcpcl_harness as H
from tcpcl_harness import GLib
from tcpcl import messages

rc = 0
# default configuration on both sides
A, B, sa, sb = H.established()
announced = B._sessinit_this
rep = A.get_session_parameters()
print('B announced: node=%r segment_mru=%d transfer_mru=%d' % (announced.nodeid_data, announced.segment_mru, announced.transfer_mru))
print('A reports  : node=%r segment_mru=%d transfer_mru=%d' % (rep['peer_nodeid'], rep['peer_segment_mru'], rep['peer_transfer_mru']))
print('EXPECTED: reported values equal the announced ones')
if rep['peer_transfer_mru'] != announced.transfer_mru:
    print('OBSERVED: peer_transfer_mru %d != announced %d' % (rep['peer_transfer_mru'], announced.transfer_mru)); rc = 1

# a peer with a large segment MRU (legal: 64-bit field)
A, B, sa, sb = H.established(segment_size_mru=2 ** 32)
rep = A.get_session_parameters()
print('B announced segment_mru=%d, A reports %d, A internally uses %d' % (B._sessinit_this.segment_mru, rep['peer_segment_mru'], A._sessinit_peer.segment_mru))
if rep['peer_segment_mru'] != B._sessinit_this.segment_mru:
    print('OBSERVED: peer_segment_mru misreported'); rc = 1
sys.exit(rc)
