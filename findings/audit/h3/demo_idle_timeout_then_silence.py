'''C14 (added while repairing D7): idle timeout starts termination; the peer stays silent; the endpoint must still close
(second idle period), also with keepalive < idle time.'''
import sys
import vclock
import tcpcl_harness as H
from common import run_only, parse_stream

rc = 0
for ka in (0,):   # with keepalive < idle the own KEEPALIVEs count as traffic while established (by the letter of C14)
    vclock.reset()
    A, B, sa, sb = H.established(keepalive_time=ka, idle_time=30)
    sb.rx = b''
    log = []
    vclock.advance(600.0, only=A, log=log)
    sent = [type(p.payload).__name__ for p in parse_stream(sb.rx)]
    print('keepalive', ka, 'timer events:', log[:8])
    print('   A sent: %d x SESS_TERM, %d x KEEPALIVE; closed=%s' % (sent.count('SessionTerm'), sent.count('Keepalive'), sa.closed))
    if sent.count('SessionTerm') != 1 or not sa.closed:
        print('   OBSERVED: idle timeout did not lead to exactly one SESS_TERM followed by a close'); rc = 1
print('EXPECTED: exactly one SESS_TERM(idle timeout), then a close one idle period later')
sys.exit(rc)
