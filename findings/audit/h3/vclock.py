'''Virtual clock on top of the GLib stand-in: timeout sources get a due time and are fired in time order.'''
from tcpcl_harness import GLib

NOW = [0.0]
DUE = {}
_orig_add = GLib.timeout_add


def _timeout_add(ms, func, *args):
    i = _orig_add(ms, func, *args)
    DUE[i] = NOW[0] + ms / 1000.0
    return i


GLib.timeout_add = _timeout_add


def reset():
    NOW[0] = 0.0
    DUE.clear()


def advance(until, only=None, log=None):
    '''Advance virtual time to `until`, firing due timers in order (optionally only those of endpoint `only`),
    running idle/io work of `only` (or of everybody) after each.'''
    from common import run_only, owner
    while True:
        live = [(DUE[i], i) for i, (kind, func, a, e) in GLib.SOURCES.items()
                if kind == 'timeout' and i in DUE and (only is None or owner(func) is only)]
        live = [x for x in live if x[0] <= until]
        if not live:
            break
        t, i = min(live)
        NOW[0] = t
        name = GLib.SOURCES[i][1].__name__
        if log is not None:
            log.append((t, name))
        GLib._dispatch(i)
        GLib.SOURCES.pop(i, None)      # glib one-shot semantics when the callback returned falsy (already popped) 
        if only is None:
            GLib.run_pending()
        else:
            run_only(only)
    NOW[0] = until
