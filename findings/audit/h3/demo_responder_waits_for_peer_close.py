'''C09 (variant of the missed re-evaluation, weaker: needs a peer that does not
close first).  A responder evaluates the close condition exactly once - inside
the handler of the received SESS_TERM, at which moment its own reply is still in
the message buffer, so the condition is always false.  Nothing evaluates it
again once the reply has left.  The responder therefore never closes by itself;
it only ends when the peer closes the TCP connection.  Against a peer that, like
this responder, waits for the other side to close (or whose FIN is lost) the
session stays half-open for ever with the default idle_time 0.
'''
import sys
import tcpcl_harness as H
from tcpcl_harness import GLib
from tcpcl import messages
from common import parse_stream, timeouts

A, B, sa, sb = H.established()
# silence the real A: from now on the script plays the initiator on A's socket
for i, (k, f, a, e) in list(GLib.SOURCES.items()):
    if getattr(f, '__self__', None) is A:
        GLib.SOURCES.pop(i)
sa.rx = b''
H.inject(sb, messages.MessageHead() / messages.SessionTerm(flags=0, reason=0))
GLib.run_pending()
got = [type(p.payload).__name__ + ('(reply)' if getattr(p.payload, 'flags', 0) else '') for p in parse_stream(sa.rx)]
print('peer received from B:', got)
print('B: state=%s in_term=%s idle=%s closed=%s timers=%s pending sources=%d' % (
    B._state, B._in_term, B.is_sess_idle(), sb.closed, timeouts(B), len([1 for v in GLib.SOURCES.values() if v[0] == 'idle'])))
print('EXPECTED: B has sent and received SESS_TERM, nothing in flight -> B closes the connection')
if not sb.closed:
    print('OBSERVED: B is terminating and idle but never closes on its own')
    sys.exit(1)
sys.exit(0)
