'''C09: the idle predicate used for the post-termination close looks only at the
message-level TX buffer.  Octets already pulled down into the connection-level
buffer (Connection.__tx_buf) but not yet accepted by the socket are thrown away
by close(), so the final XFER_ACK of a transfer that was in progress when
termination was requested never reaches the sender.

Schedule (A's socket accepts only a few octets per send = slow TCP window):
  B has sent a one-segment bundle to A and awaits the ACK
  A.terminate()                      -> SESS_TERM on the wire
  A reads the segment                -> XFER_ACK queued
  A's socket takes 5 of the 18 ACK octets (rest sits in Connection.__tx_buf)
  B reads SESS_TERM, replies
  A reads the reply -> _check_sess_term(): message-level buffer empty -> close()
'''
import sys
import tcpcl_harness as H
from tcpcl_harness import GLib
from common import run_only, step, signals

A, B, sa, sb = H.established()
tid = B.send_bundle_data(b'x' * 100)
run_only(B)                                   # segment is in A's receive queue, A has not read yet
assert signals('send_bundle_started'), 'transfer must be in progress'

A.terminate()
step(A, '_avail_tx_notls')                    # SESS_TERM fully on the wire
step(A, '_avail_rx_notls')                    # A reads the END segment, queues XFER_ACK
assert signals('recv_bundle_finished'), 'A received the bundle'
sa.chunk = 5                                  # socket accepts 5 octets now
step(A, '_avail_tx_notls')                    # ACK moved to connection buffer, 5/18 octets sent
conn_left = len(A._Connection__tx_buf)
msg_left = A.send_buffer_used()
run_only(B)                                   # B reads SESS_TERM, replies
step(A, '_avail_rx_notls')                    # A reads the reply
closed_early = sa.closed
sa.chunk = None
GLib.run_pending()

fin = [a for (n, a) in signals('send_bundle_finished')]
print('connection-level octets pending when reply arrived:', conn_left, '(message-level: %d)' % msg_left)
print('A closed on receipt of the SESS_TERM reply:', closed_early)
print('B send_bundle_finished signals:', fin)
print('both closed:', sa.closed, sb.closed, 'escaped errors:', GLib.ERRORS)
print('EXPECTED: transfer %s in progress at termination is acknowledged (send_bundle_finished success) before close' % tid)
ok = any(a[0] == tid and a[2] == 'success' for a in fin)
if not ok:
    print('OBSERVED: A closed with %d octets of the XFER_ACK unsent; B never got the ACK and reports nothing' % conn_left)
    sys.exit(1)
print('OBSERVED: acknowledged')
sys.exit(0)
