'''C09: "Bundles still queued but not started are reported as not sent rather
than silently lost".  The not-started queue is only flushed in recv_sess_term(),
i.e. when a SESS_TERM is *received*.  Every other way a session ends - peer
disconnect, close(), Agent.stop(), or terminate() that is never answered and
ends through the idle timer - drops the queue (and the transfer in progress)
without any send_bundle_finished signal.

Scenario 1: A has transfer 1 in progress (3 segments) and 2,3 queued; peer B disconnects.
Scenario 2: A.terminate() with 2 bundles queued behind a transfer in progress,
            the peer never answers, A's idle timer closes the session.
'''
import sys
import tcpcl_harness as H
from tcpcl_harness import GLib
from common import run_only, step, fire, signals

bad = 0

# ---- scenario 1: peer disconnect --------------------------------------------------------
A, B, sa, sb = H.established(segment_size_tx_initial=100)
ids = [A.send_bundle_data(b'a' * 300), A.send_bundle_data(b'b' * 50), A.send_bundle_data(b'c' * 50)]
step(A, '_process_queue')            # first segment of transfer 1 queued: 1 in progress, 2 and 3 waiting
started = [a[0] for (n, a) in signals('send_bundle_started')]
B.close()                            # peer goes away (crash / disconnect)
GLib.run_pending()
fin = {a[0]: a[2] for (n, a) in signals('send_bundle_finished')}
print('S1 started:', started, ' queue after close:', list(A.send_bundle_get_queue()), ' A closed:', sa.closed)
print('S1 send_bundle_finished:', fin)
print('S1 EXPECTED: bundles 2 and 3 (queued, not started) reported as not sent')
if not all(i in fin for i in ids[1:]):
    print('S1 OBSERVED: no report for', [i for i in ids[1:] if i not in fin], '- silently lost')
    bad = 1

# ---- scenario 2: terminate(), peer silent, idle timer closes --------------------------------
A, B, sa, sb = H.established(segment_size_tx_initial=100, idle_time=30)
ids = [A.send_bundle_data(b'a' * 300), A.send_bundle_data(b'b' * 50), A.send_bundle_data(b'c' * 50)]
step(A, '_process_queue')
A.terminate()
run_only(A)                          # B is dead silent: never reads, never answers
fire(A, '_idle_timeout')             # 30 s with nothing heard while terminating -> close
run_only(A)
fin = {a[0]: a[2] for (n, a) in signals('send_bundle_finished')}
print('S2 A closed:', sa.closed, ' send_bundle_finished:', fin)
print('S2 EXPECTED: bundles 2 and 3 reported as not sent when the session ends')
if not all(i in fin for i in ids[1:]):
    print('S2 OBSERVED: no report for', [i for i in ids[1:] if i not in fin], '- silently lost')
    bad = 1
print('escaped errors:', GLib.ERRORS)
sys.exit(bad)
