'''C09 (agent shutdown waits for all contacts to close / termination requested
"before establishment"):  Agent.shutdown() calls terminate() on every contact.
terminate() -> send_sess_term() raises RuntimeError for a contact that is not
yet established, and for one that is already terminating.  The exception
escapes shutdown(), the remaining contacts are never told to terminate, the
un-established contact stays open, and the agent never stops.
'''
import sys
import tcpcl_harness as H
from tcpcl_harness import GLib
from tcpcl.agent import Agent
from tcpcl.config import Config
from common import signals


def mkagent():
    GLib.SOURCES.clear(); GLib.ERRORS.clear()
    cfg = Config(tls_enable=False, node_id='dtn://a/')
    cfg._bus_conn = object()      # the bus stub cannot build a connection; Config.bus_conn caches this attribute
    ag = Agent(cfg, bus_kwargs=dict(conn=None, object_path='/agent'))
    stopped = []
    ag.set_on_stop(lambda: stopped.append(True))
    return ag, cfg, stopped


def contact(ag, cfg, peer_answers):
    s, p = H.pair()
    hdl = ag._bind_handler(config=cfg, sock=s, toaddr=('10.0.0.2', 4556))   # what Agent.connect() does after make_socket()
    peer = H.mk(p, True) if peer_answers else None
    hdl.start()
    if peer:
        peer.start()
    return hdl, s, peer, p


rc = 0
# ---- case 1: first contact still waiting for the peer's contact header ----------------
ag, cfg, stopped = mkagent()
h1, s1, _, _ = contact(ag, cfg, peer_answers=False)     # TCP connected, peer has not sent anything yet
h2, s2, peer2, p2 = contact(ag, cfg, peer_answers=True)
GLib.run_pending()
print('case 1 states before shutdown:', h1._state, h2._state)
try:
    r = ag.shutdown(); err = None
except Exception as e:
    r = None; err = '%s: %s' % (type(e).__name__, e)
GLib.run_pending()
print('case 1 shutdown() ->', r, ' raised:', err)
print('case 1 after: h1 state=%s closed=%s | h2 state=%s closed=%s | agent stopped=%s' % (h1._state, s1.closed, h2._state, s2.closed, bool(stopped)))
print('case 1 EXPECTED: shutdown() returns False, every contact terminates/closes, then the agent stops')
if err or not (s1.closed and s2.closed and stopped):
    print('case 1 OBSERVED: shutdown aborted; established contact h2 never sent SESS_TERM, h1 left open, agent never stops')
    rc = 1

# ---- case 2: one contact is already terminating (e.g. idle timeout just fired) ---------
ag, cfg, stopped = mkagent()
h1, s1, peer1, p1 = contact(ag, cfg, peer_answers=True)
h2, s2, peer2, p2 = contact(ag, cfg, peer_answers=True)
GLib.run_pending()
# h1 has a 3-segment transfer in progress and has already begun termination
h1._send_segment_size = 100
h1.send_bundle_data(b'a' * 300)
from common import step
step(h1, '_process_queue')
h1.terminate(1)
try:
    r = ag.shutdown(); err = None
except Exception as e:
    r = None; err = '%s: %s' % (type(e).__name__, e)
GLib.run_pending()
print('case 2 shutdown() ->', r, ' raised:', err)
print('case 2 after: h1 closed=%s | h2 state=%s closed=%s | agent stopped=%s' % (s1.closed, h2._state, s2.closed, bool(stopped)))
if err or not (s1.closed and s2.closed and stopped):
    print('case 2 OBSERVED: shutdown aborted on the already-terminating contact; h2 stays established, agent never stops')
    rc = 1
sys.exit(rc)
