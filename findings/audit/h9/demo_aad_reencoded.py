''' C03 / C16: content bound in as AAD is taken from a *re-encoding* of the decoded fields, not from
what was received, and the decode/encode pair is not injective.

CoseSecOpCtx.get_external_aad() rebuilds the primary block with bytes(blk), the target metadata with
blk.build()[:3] and the security source with EidField.i2m().  EidField.i2m() runs urllib's urlsplit,
which drops '?query', '#fragment' and tab/CR/LF; UintField.m2i() is int(x), which maps CBOR
true/false (and floats, text digits) onto 1/0.  So these altered bundles produce the same AAD as the
original and verify:
  * one bit flipped in the primary block source / report-to EID      ('dtn://src/' -> 'dtn://src?')
  * one bit flipped in the security source of the BIB/BCB
  * target block type 1 -> true, block number 1 -> true, flags 0 -> false; primary flags 0 -> false
The receiver nevertheless hands the altered values on (e.g. primary.source == 'dtn://src?').
'''
import sys
from hunt9_common import *

bad = 0


def run(kind):
    global bad
    A, clA = source()
    if kind == 'BIB':
        add_sa(A, 'bib', mac_key())
    else:
        add_sa(A, 'bcb', enc_key(), content_iv=[b'123456789012'])
    A.send_bundle(newctr(b'hello-world', crc=0, dtntime=1000))
    wire = clA.sent[0]
    B, clB = destination(accept=True)   # accepted => the security block was really verified and removed
    give_key(B, mac_key())
    give_key(B, enc_key())
    print(kind, 'wire:', wire.hex())
    print(kind, 'baseline:', verdict(rx(B, wire)))

    item = cbor2.loads(wire)
    prim = cbor2.dumps(item[0])
    p0 = wire.find(prim)
    assert p0 == 1
    # offsets inside the primary block: 88 07 00 00 [dest] [src] [report-to] ...
    src_last = wire.find(b'\x82\x01\x66//src/', p0) + 8          # last octet of the source EID text
    rpt_last = wire.find(b'\x82\x01\x66//src/', src_last) + 8    # last octet of report-to
    sec_last = wire.find(b'\x82\x01\x66//src/', rpt_last) + 8    # last octet of the security source
    tgt = wire.rfind(b'\x85\x01\x01\x00\x00')                    # target block header: type, num, flags, crc
    cases = [
        ('primary source  "/"->"?" (1 bit)', src_last, 0x2f ^ 0x10),
        ('primary report-to "/"->"?" (1 bit)', rpt_last, 0x2f ^ 0x10),
        ('security source "/"->"?" (1 bit)', sec_last, 0x2f ^ 0x10),
        ('security source "/"->"#"        ', sec_last, 0x23),
        ('primary bundle flags 0 -> false  ', 3, 0xf4),
        ('primary dest scheme 1 -> true    ', 6, 0xf5),
        ('target block type 1 -> true      ', tgt + 1, 0xf5),
        ('target block number 1 -> true    ', tgt + 2, 0xf5),
        ('target block flags 0 -> false    ', tgt + 3, 0xf4),
    ]
    for label, off, val in cases:
        mod = bytearray(wire)
        assert mod[off] != val
        mod[off] = val
        try:
            r = rx(B, bytes(mod))
            v = verdict(r)
            sec_left = len(r.block_type(11)) + len(r.block_type(12))
            extra = 'source=%r report_to=%r payload=%r' % (r.bundle.primary.source, r.bundle.primary.report_to,
                                                          bytes(r.block_num(1).btsd))
        except Exception as err:
            v, sec_left, extra = 'undecodable (%s)' % type(err).__name__, None, ''
        ok = (v == 'delivered' and sec_left == 0)
        print('  %s %s: %s%s  (expected: deleted, reason 15)' % (
            kind, label, v, ' and security block VERIFIED+accepted; ' + extra if ok else ''))
        if ok:
            bad += 1


run('BIB')
run('BCB')
print('DEFECT SHOWN (%d altered bundles verified)' % bad if bad else 'no defect')
sys.exit(1 if bad else 0)
