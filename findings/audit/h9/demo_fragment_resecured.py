''' C03 clause 1 / C16 clause 2: an unmodified bundle protected by the agent must verify / decrypt.

Configuration: the source has a security association for payload blocks AND its route has an MTU, so
the 'Fragment creation' TX step (order 20, after the BPSec steps 10/11) splits the secured bundle.
Fragment._create() hands every fragment to Agent.send_bundle(), i.e. through the whole TX chain again,
so CoseContext.apply_bib/apply_bcb match the association again and secure the *fragment*:
  * BIB: the first fragment carries the original BIB plus a second BIB computed over the fragment's
    primary block and partial payload.  The destination reassembles (copying the first fragment's
    blocks) and the second BIB can never verify -> the unmodified bundle is deleted with reason 15.
  * BCB: every fragment's slice of ciphertext is encrypted a second time (+16 octets tag each), the
    fragment offsets no longer describe the data, reassembly never completes -> the bundle is lost.
Primary/payload CRC type is 0 here so that the separate reassembly defect
(demo_reassembly_primary_crc.py) does not play a role.
'''
import sys
from hunt9_common import *

bad = 0
PAYLOAD = bytes(range(256)) + b'P' * 144     # 400 octets


def run(kind):
    global bad
    A, clA = source(mtu=300)
    if kind == 'BIB':
        add_sa(A, 'bib', mac_key())
    else:
        add_sa(A, 'bcb', enc_key(), content_iv=[bytes([0x30 + n]) * 12 for n in range(10)])
    A.send_bundle(newctr(PAYLOAD, crc=0))
    GLib.run_pending()                      # deferred send of the fragments
    frags = list(clA.sent)
    print(kind, 'source transmitted %d bundles, errors %s' % (len(frags), GLib.ERRORS))
    for data in frags:
        b = Bundle(data)
        print('   fragment offset %-4s blocks %s payload-len %d' % (
            b.primary.fragment_offset,
            [(blk.type_code, blk.block_num) for blk in b.blocks],
            len([blk for blk in b.blocks if blk.type_code == 1][0].btsd)))

    B, clB = destination(accept=True)
    give_key(B, mac_key())
    give_key(B, enc_key())
    got = spy_recv(B)
    for data in frags:
        B.recv_bundle(BundleContainer(Bundle(data)))
    GLib.run_pending()                      # deferred receive of the reassembled bundle
    whole = [c for c in got if not (c.bundle.primary.bundle_flags & PrimaryBlock.Flag.IS_FRAGMENT)]
    if not whole:
        print(kind, 'destination: nothing was reassembled, pending reassemblies:',
              len(B._app['fragment']._reassembly))
        outcome = 'lost'
    else:
        c = whole[0]
        outcome = verdict(c)
        print(kind, 'destination: reassembled bundle %s, payload intact: %s' % (
            outcome, bytes(c.block_num(1).btsd) == PAYLOAD))
    print(kind, 'expected: delivered with the original payload; observed:', outcome)
    if outcome != 'delivered':
        bad += 1


run('BIB')
run('BCB')
print('DEFECT SHOWN' if bad else 'no defect')
sys.exit(1 if bad else 0)
