from common import *
import sys, traceback
algorithms.HMAC256.get_key_length = classmethod(lambda cls: 32)
import pycose.messages.macmessage as _mm
from pycose.keys.keyops import MacCreateOp as _mc, MacVerifyOp as _mv
_mm.SymmetricKey = SymmetricKey; _mm.MacCreateOp=_mc; _mm.MacVerifyOp=_mv
kinds = {
 'mac0': ('bib', lambda: symkey(b'k1', algorithms.HMAC256, [keyops.MacCreateOp, keyops.MacVerifyOp]), lambda: {}),
 'mac':  ('bib', lambda: symkey(b'k2', algorithms.A256KW, [keyops.WrapOp, keyops.UnwrapOp]), lambda: dict(content_alg=algorithms.HMAC256, content_key=b'K'*32)),
 'enc0': ('bcb', lambda: symkey(b'k3', algorithms.A256GCM, [keyops.EncryptOp, keyops.DecryptOp]), lambda: dict(content_iv=[b'123456789012'])),
 'enc':  ('bcb', lambda: symkey(b'k4', algorithms.A256KW, [keyops.WrapOp, keyops.UnwrapOp]), lambda: dict(content_alg=algorithms.A256GCM, content_iv=[b'123456789012'])),
}
name = sys.argv[1]; accept = sys.argv[2]=='1'
st,mk,kw = kinds[name]
A,clA,B,clB = pair(accept)
add_sa(A, st, mk(), **kw())
A.send_bundle(newctr(b'hello-world', crc=0))
data = clA.sent[0]
print(data.hex())
import cbor2
print(cbor2.loads(data))
A2,clA2,B,clB = pair(accept)
ctx_of(B).sym_key_store[mk().kid] = mk()
r = rx(B, data); print('baseline', verdict(r), r.block_num(1).btsd)
res = {}
for off in range(len(data)):
    for bit in range(8):
        mod = bytearray(data); mod[off] ^= 1<<bit
        B._seen_bundle_ident.clear()
        try:
            r = rx(B, bytes(mod))
            v = verdict(r)
            if v=='deliver':
                v += ' payload=%r blocks=%s' % (r.block_num(1).btsd, [b.type_code for b in r.bundle.blocks])
        except Exception as e:
            v = 'exc:'+type(e).__name__
        res.setdefault(v, []).append((off,bit))
for v,l in res.items():
    print(v, len(l), l if not v.startswith(('exc','delete')) else l[:5])
