from sign_common import *
ca_key, ca_cert = mk_ca()
key, cert = mk_ee(ca_key, ca_cert, 'dtn://src/')
A,clA,B,clB = pair(True)
add_sign_sa(A, ca_cert, key, cert)
c = newctr(b'hello-world', crc=0); c.bundle.primary.create_ts = Timestamp(dtntime=1000, seqno=1)
A.send_bundle(c)
data=clA.sent[0]
print(data.hex())
A2,clA2,B,clB = pair(True)
ctx_of(B)._ca_certs=[ca_cert]
res={}
for off in range(len(data)):
    for bit in range(8):
        mod = bytearray(data); mod[off] ^= 1<<bit
        B._seen_bundle_ident.clear()
        try:
            r = rx(B, bytes(mod))
            v = verdict(r)
            if v=='deliver':
                v += ' payload=%r blocks=%s' % (r.block_num(1).btsd, [b.type_code for b in r.bundle.blocks])
        except Exception as e:
            v = 'exc'
        res.setdefault(v, []).append((off,bit))
for v,l in res.items():
    print(v, len(l), l if not v.startswith(('exc','delete')) else l[:5])
