from common import *
import sys, traceback, time
kinds = {
 'mac0': ('bib', lambda: symkey(b'k1', algorithms.HMAC256, [keyops.MacCreateOp, keyops.MacVerifyOp]), lambda: {}),
 'enc0': ('bcb', lambda: symkey(b'k3', algorithms.A256GCM, [keyops.EncryptOp, keyops.DecryptOp]), lambda: dict(content_iv=[b'123456789012'])),
}
name = sys.argv[1]; accept = True
st,mk,kw = kinds[name]
A,clA,B,clB = pair(accept)
add_sa(A, st, mk(), **kw())
c = newctr(b'hello-world', crc=0)
c.bundle.primary.create_ts = Timestamp(dtntime=1000, seqno=1)
A.send_bundle(c)
data = clA.sent[0]
print(data.hex())
A2,clA2,B,clB = pair(accept)
ctx_of(B).sym_key_store[mk().kid] = mk()
res = {}
t=time.time()
for off in range(int(sys.argv[2]), min(len(data), int(sys.argv[3]))):
    for val in range(256):
        if val == data[off]: continue
        mod = bytearray(data); mod[off] = val
        B._seen_bundle_ident.clear()
        try:
            r = rx(B, bytes(mod))
            v = verdict(r)
            if v=='deliver':
                v += ' payload=%r blocks=%s' % (r.block_num(1).btsd, [b.type_code for b in r.bundle.blocks])
        except Exception as e:
            v = 'exc'
        if v.startswith('deliver') and 'blocks=[1]' in v:
            print(off, hex(data[off]), '->', hex(val), v)
print(time.time()-t)
