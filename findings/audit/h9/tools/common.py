import os, sys, re
import bp_harness as H
from bp_harness import *
import bp.app.bpsec as S
from bp.app.bpsec import CoseContext, SecAssociation, SecOperation, BPSEC_COSE_CONTEXT_ID
from bp.encoding.bpsec import BlockIntegrityBlock, BlockConfidentialityBlock
from bp.encoding import StatusReport
from pycose import algorithms, headers
from pycose.keys import SymmetricKey, keyops

def symkey(kid, alg, ops, k=None, n=32):
    key = SymmetricKey(k=k or bytes(range(n)), optional_params={})
    key.kid = kid; key.alg = alg; key.key_ops = ops
    return key

def ctx_of(agent):
    return agent._app['bpsec']._contexts[BPSEC_COSE_CONTEXT_ID]

HM = algorithms.HMAC256
def pair(accept=False, src='dtn://src/', dst='dtn://dst/', mtu=None):
    A,clA = mkagent(src, tx=[TxRouteItem(re.compile('.*'),dst,'fake',mtu=mtu)])
    B,clB = mkagent(dst, rx=[RxRouteItem(re.compile('.*'),'deliver')])
    B._config.accept_after_verify = accept
    return A,clA,B,clB

def add_sa(agent, sec_type, key, types=(1,), **kw):
    c = ctx_of(agent)
    c.sym_key_store[key.kid] = key
    c.sec_assoc.append(SecAssociation(src_pat=re.compile('.*'), dst_pat=re.compile('.*'), tgt_blk_types=list(types),
        templates=[SecOperation(sec_type=sec_type, role='source', priv_key_id=key.kid, **kw)]))

def newctr(payload=b'hello', dst='dtn://dst/svc', crc=2, flags=0, extra=()):
    ctr = BundleContainer()
    ctr.bundle.primary = PrimaryBlock(bundle_flags=flags, destination=dst, crc_type=crc, report_to='dtn://src/')
    ctr.bundle.blocks = list(extra) + [CanonicalBlock(type_code=1, block_num=1, crc_type=crc, btsd=payload)]
    return ctr

def rx(B, data):
    ctr = BundleContainer(Bundle(data))
    B.recv_bundle(ctr)
    return ctr

def verdict(ctr):
    if 'delete' in ctr.actions: return 'delete(%s)' % ctr.status_reason
    if 'deliver' in ctr.actions: return 'deliver'
    return 'dropped:%s' % list(ctr.actions)
