from common import *
import datetime, asn1
from cryptography import x509
from cryptography.hazmat.backends import default_backend
from cryptography.hazmat.primitives import hashes
from cryptography.hazmat.primitives.asymmetric import ec

def mk_ca():
    ca_key = ec.generate_private_key(ec.SECP256R1())
    name = x509.Name([x509.NameAttribute(x509.oid.NameOID.COMMON_NAME, 'CA')])
    now = datetime.datetime.now(datetime.timezone.utc) - datetime.timedelta(days=1)
    cert = (x509.CertificateBuilder().subject_name(name).issuer_name(name).public_key(ca_key.public_key())
        .serial_number(x509.random_serial_number()).not_valid_before(now).not_valid_after(now+datetime.timedelta(days=10))
        .add_extension(x509.BasicConstraints(ca=True, path_length=1), critical=True)
        .add_extension(x509.SubjectKeyIdentifier.from_public_key(ca_key.public_key()), critical=False)
        .add_extension(x509.AuthorityKeyIdentifier.from_issuer_public_key(ca_key.public_key()), critical=False)
        .sign(ca_key, hashes.SHA256()))
    return ca_key, cert

def mk_ee(ca_key, ca_cert, node_id):
    key = ec.generate_private_key(ec.SECP256R1())
    now = datetime.datetime.now(datetime.timezone.utc) - datetime.timedelta(days=1)
    enc = asn1.Encoder(); enc.start(); enc.write(node_id.encode('ascii'), asn1.Numbers.IA5String)
    sans = [x509.OtherName(x509.oid.ObjectIdentifier('1.3.6.1.5.5.7.8.11'), enc.output())]
    cert = (x509.CertificateBuilder().subject_name(x509.Name([x509.NameAttribute(x509.oid.NameOID.COMMON_NAME, 'ee')]))
        .issuer_name(ca_cert.issuer).public_key(key.public_key())
        .serial_number(x509.random_serial_number()).not_valid_before(now).not_valid_after(now+datetime.timedelta(days=10))
        .add_extension(x509.BasicConstraints(ca=False, path_length=None), critical=True)
        .add_extension(x509.SubjectAlternativeName(sans), critical=False)
        .add_extension(x509.SubjectKeyIdentifier.from_public_key(key.public_key()), critical=False)
        .add_extension(x509.AuthorityKeyIdentifier.from_issuer_public_key(ca_key.public_key()), critical=False)
        .sign(ca_key, hashes.SHA256()))
    return key, cert

def add_sign_sa(agent, ca_cert, key, cert, types=(1,)):
    c = ctx_of(agent)
    c._ca_certs=[ca_cert]; c._cert_chain=[cert]
    ck = c.extract_cose_key(key); ck.kid=b'sig'; ck.key_ops=[keyops.SignOp]
    c.asym_key_store[ck.kid]=ck
    c.sec_assoc.append(SecAssociation(src_pat=re.compile('.*'), dst_pat=re.compile('.*'), tgt_blk_types=list(types),
        templates=[SecOperation(sec_type='bib', role='source', priv_key_id=ck.kid)]))
