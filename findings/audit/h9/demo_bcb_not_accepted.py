''' C16 clause 2 ("a receiver with the key recovers exactly the original plaintext") and
C03 clause 1 ("a BIB produced by the agent ... verifies ... when the bundle is unmodified").

With the DEFAULT configuration (Config.accept_after_verify = False) the destination node decrypts a
BCB target successfully in CoseContext.verify_bcb_target() but throws the plaintext away:
        if self._config.accept_after_verify:
            secop.tgt_blk.setfieldval('btsd', plaintext)
Bpsec._verify_bcb only runs when the bundle is being *delivered* at this node, so there is no later
acceptor.  Consequences at the final destination, key present, bundle unmodified:
  (a) the bundle is delivered to the application steps with the AES-GCM ciphertext as its payload;
  (b) when the source applies both a BIB and a BCB to the payload (TX steps 10 and 11), the BIB - computed
      over the plaintext - is verified (RX step 20) against the ciphertext and the unmodified bundle
      is deleted as a security failure.
'''
import sys
from hunt9_common import *

bad = 0
# (a) BCB only
A, clA = source()
add_sa(A, 'bcb', enc_key(), content_iv=[b'123456789012'])
A.send_bundle(newctr(b'hello-world'))
B, clB = destination()                      # default config
assert B._config.accept_after_verify is False
give_key(B, enc_key())
r = rx(B, clA.sent[0])
got = bytes(r.block_num(1).btsd)
print('(a) BCB only, default config: %s, payload handed to the application steps = %s' % (verdict(r), got.hex()))
print('    expected: delivered with payload %r' % b'hello-world')
if verdict(r) == 'delivered' and got != b'hello-world':
    bad += 1

# (b) BIB + BCB on the same target
A, clA = source()
add_sa(A, 'bib', mac_key())
add_sa(A, 'bcb', enc_key(), content_iv=[b'123456789012'])
A.send_bundle(newctr(b'hello-world'))
wire = clA.sent[0]
print('(b) blocks on the wire:', [(blk.type_code, blk.payload.targets if blk.type_code in (11, 12) else '')
                                 for blk in Bundle(wire).blocks])
for accept in (False, True):
    B, clB = destination(accept=accept)
    give_key(B, enc_key())
    give_key(B, mac_key())
    r = rx(B, wire)
    print('    accept_after_verify=%s: %s   (expected: delivered)' % (accept, verdict(r)))
    if verdict(r) != 'delivered':
        bad += 1
print('DEFECT SHOWN' if bad else 'no defect')
sys.exit(1 if bad else 0)
