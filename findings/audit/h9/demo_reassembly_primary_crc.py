''' C03 clause 1 / C16 clause 2: an unmodified secured bundle must verify / decrypt at the receiver.

The source applies a BIB (or BCB) - whose AAD covers the primary block (scope {0:1,-1:1}) - to a bundle
whose primary block has a CRC (Agent.ping() and create_report() both use CRC32).  A forwarding node of
the same implementation, holding no keys, fragments it for a small-MTU route.  The destination
reassembles in Fragment._reassemble(), which *rewrites the primary block* of the reassembled bundle:
    rctr.bundle.primary.crc_type = AbstractBlock.CrcType.NONE ; crc_value = None
CRC type and CRC value are part of the encoded primary block that get_external_aad() binds in
(bytes(blk) after update_crc()), so the AAD differs from the one the source used and the unmodified
bundle is deleted as a security failure.  With primary CRC type 0 at the source the same flow verifies.
'''
import sys
from hunt9_common import *

PAYLOAD = bytes(range(256)) + b'P' * 144
bad = 0
for kind in ('BIB', 'BCB'):
    for crc in (0, 1, 2):
        A, clA = source(next_hop='dtn://fwd/')
        if kind == 'BIB':
            add_sa(A, 'bib', mac_key())
        else:
            add_sa(A, 'bcb', enc_key(), content_iv=[b'123456789012'])
        A.send_bundle(newctr(PAYLOAD, crc=crc))
        wire = clA.sent[0]

        F, clF = mkagent('dtn://fwd/', rx=[RxRouteItem(re.compile('.*'), 'forward')],
                         tx=[TxRouteItem(re.compile('.*'), 'dtn://dst/', 'fake', mtu=300)])
        F.recv_bundle(BundleContainer(Bundle(wire)))
        GLib.run_pending()
        frags = list(clF.sent)
        assert len(frags) > 1 and not GLib.ERRORS, (len(frags), GLib.ERRORS)

        B, clB = destination(accept=True)
        give_key(B, mac_key())
        give_key(B, enc_key())
        got = spy_recv(B)
        for data in frags:
            B.recv_bundle(BundleContainer(Bundle(data)))
        GLib.run_pending()
        whole = [c for c in got if not (c.bundle.primary.bundle_flags & PrimaryBlock.Flag.IS_FRAGMENT)]
        c = whole[0]
        ok = verdict(c) == 'delivered' and bytes(c.block_num(1).btsd) == PAYLOAD
        print('%s, source primary crc_type=%d, %d fragments: reassembled bundle %s (primary crc_type now %d)%s' % (
            kind, crc, len(frags), verdict(c), c.bundle.primary.crc_type,
            '' if ok else '   <-- expected: delivered'))
        if not ok:
            bad += 1
print('DEFECT SHOWN' if bad else 'no defect')
sys.exit(1 if bad else 0)
