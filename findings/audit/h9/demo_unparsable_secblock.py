''' C03 / C16: a security block whose abstract security block no longer parses is silently skipped.

A single-bit change to the security source (EID scheme code 1 -> 3) inside the BIB/BCB makes
CanonicalBlock.post_dissect() fail to build the BlockIntegrityBlock/BlockConfidentialityBlock payload;
the exception is swallowed there, and Bpsec._verify_bib/_verify_bcb only look at blocks indexed under
the *payload class*, so the type-11/type-12 block is never looked at.  The bundle is delivered and no
security failure is reported; for a BIB the target can then be altered freely, for a BCB the
ciphertext is delivered as if it were the payload.
'''
import sys
from hunt9_common import *

bad = 0


def find(data, needle):
    ix = data.find(needle)
    assert ix >= 0 and data.find(needle, ix + 1) < 0
    return ix


# ---------------------------------------------------------------- BIB (C03)
A, clA = source()
add_sa(A, 'bib', mac_key())
A.send_bundle(newctr(b'hello-world', crc=0))
wire = clA.sent[0]

B, clB = destination(accept=False)
give_key(B, mac_key())
base = rx(B, wire)
print('BIB baseline (unmodified):', verdict(base))

# sanity: altering only the payload is detected
mod = bytearray(wire)
mod[find(wire, b'hello-world')] ^= 0x01
print('BIB payload bit flipped only      :', verdict(rx(B, bytes(mod))), '(expected deleted, reason 15)')

# security source inside the ASB: 82 01 66 '//src/'  preceded by context flags 03 01
ix = find(wire, bytes.fromhex('03018201662f2f7372632f')) + 3    # the scheme code octet 0x01
mod = bytearray(wire)
mod[ix] ^= 0x02                                                 # single bit: dtn(1) -> unknown scheme 3
r = rx(B, bytes(mod))
print('BIB security-source bit flipped   :', verdict(r), '(expected deleted, reason 15)')
if verdict(r) == 'delivered':
    bad += 1
# and now the attacker also changes the payload
mod[find(wire, b'hello-world')] ^= 0x01
r = rx(B, bytes(mod))
print('  ... plus payload altered        :', verdict(r), 'payload=%r' % bytes(r.block_num(1).btsd),
      'BIB blocks seen by verifier=%d, type-11 blocks in bundle=%d' % (
          len(r.block_type(BlockIntegrityBlock)), len(r.block_type(11))))
if verdict(r) == 'delivered':
    bad += 1

# same for the scope parameter and for the result (MAC) container
for label, needle, off, bit in (
        ('AAD-scope parameter id 5 -> 0x45', bytes.fromhex('818205a2000120'), 2, 0x40),
        ('result (COSE_Mac0) bstr head     ', bytes.fromhex('81818211 58'.replace(' ','')), 4, 0x40)):
    mod = bytearray(wire)
    mod[find(wire, needle) + off] ^= bit
    r = rx(B, bytes(mod))
    print('BIB %s:' % label, verdict(r), '(expected deleted, reason 15)')
    if verdict(r) == 'delivered':
        bad += 1

# ---------------------------------------------------------------- BCB (C16)
A, clA = source()
add_sa(A, 'bcb', enc_key(), content_iv=[b'123456789012'])
A.send_bundle(newctr(b'hello-world', crc=0))
wire = clA.sent[0]
B, clB = destination(accept=True)
give_key(B, enc_key())
base = rx(B, wire)
print('BCB baseline (unmodified):', verdict(base), bytes(base.block_num(1).btsd))
ix = find(wire, bytes.fromhex('03018201662f2f7372632f')) + 3
mod = bytearray(wire)
mod[ix] ^= 0x02
r = rx(B, bytes(mod))
print('BCB security-source bit flipped   :', verdict(r), 'payload handed on=%s' % bytes(r.block_num(1).btsd).hex(),
      '(expected deleted, reason 15)')
if verdict(r) == 'delivered':
    bad += 1

print('DEFECT SHOWN' if bad else 'no defect')
sys.exit(1 if bad else 0)
