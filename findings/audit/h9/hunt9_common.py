''' Shared helpers for the out9 demos: two real bp.agent.Agent instances (source A, destination B)
with the real bp.app.bpsec application registered, joined by the recording convergence layer
of /tmp/hunt/bp_harness.py.  Nothing in the project source is modified or monkeypatched.
'''
import re
import cbor2
import bp_harness as H
from bp_harness import (GLib, mkagent, mkbundle, Bundle, BundleContainer, PrimaryBlock, CanonicalBlock,
                        Timestamp, HopCountBlock, RxRouteItem, TxRouteItem)
import bp.app.bpsec as S          # registers the 'bpsec' application before any agent is built
from bp.app.bpsec import SecAssociation, SecOperation, BPSEC_COSE_CONTEXT_ID
from bp.encoding.bpsec import BlockIntegrityBlock, BlockConfidentialityBlock
from pycose import algorithms
from pycose.keys import SymmetricKey, keyops


def symkey(kid, alg, ops, k=None):
    key = SymmetricKey(k=k or bytes(range(32)), optional_params={})
    key.kid = kid
    key.alg = alg
    key.key_ops = ops
    return key


def mac_key(k=None):
    return symkey(b'k-mac', algorithms.HMAC256, [keyops.MacCreateOp, keyops.MacVerifyOp], k)


def enc_key(k=None):
    return symkey(b'k-enc', algorithms.A256GCM, [keyops.EncryptOp, keyops.DecryptOp], k)


def ctx_of(agent):
    return agent._app['bpsec']._contexts[BPSEC_COSE_CONTEXT_ID]


def add_sa(agent, sec_type, key, types=(1,), **kw):
    ''' Configure a source security association the way bp/test/test_app_bpsec.py does. '''
    ctx = ctx_of(agent)
    ctx.sym_key_store[key.kid] = key
    ctx.sec_assoc.append(SecAssociation(
        src_pat=re.compile('.*'), dst_pat=re.compile('.*'), tgt_blk_types=list(types),
        templates=[SecOperation(sec_type=sec_type, role='source', priv_key_id=key.kid, **kw)]))


def give_key(agent, key):
    ctx_of(agent).sym_key_store[key.kid] = key


def source(node='dtn://src/', next_hop='dtn://dst/', mtu=None):
    return mkagent(node, tx=[TxRouteItem(re.compile('.*'), next_hop, 'fake', mtu=mtu)])


def destination(node='dtn://dst/', accept=False, tx=()):
    agent, cl = mkagent(node, rx=[RxRouteItem(re.compile('.*'), 'deliver')], tx=tx)
    agent._config.accept_after_verify = accept
    return agent, cl


def newctr(payload=b'hello-world', dst='dtn://dst/svc', crc=2, flags=0, extra=(), dtntime=None):
    ctr = BundleContainer()
    ctr.bundle.primary = PrimaryBlock(bundle_flags=flags, destination=dst, crc_type=crc, report_to='dtn://src/')
    if dtntime is not None:
        ctr.bundle.primary.create_ts = Timestamp(dtntime=dtntime, seqno=1)
    ctr.bundle.blocks = list(extra) + [CanonicalBlock(type_code=1, block_num=1, crc_type=crc, btsd=payload)]
    return ctr


def rx(agent, data):
    ''' Hand encoded octets to the agent the way Agent._cl_recv_bundle_finish does. '''
    agent._seen_bundle_ident.clear()
    ctr = BundleContainer(Bundle(data))
    agent.recv_bundle(ctr)
    return ctr


def verdict(ctr):
    if 'delete' in ctr.actions:
        return 'deleted(reason %s)' % ctr.status_reason
    if 'deliver' in ctr.actions:
        return 'delivered'
    return 'dropped'


def spy_recv(agent):
    ''' Record every container that goes through agent.recv_bundle (incl. reassembled ones). '''
    got = []
    orig = agent.recv_bundle

    def wrapper(ctr):
        orig(ctr)
        got.append(ctr)
    agent.recv_bundle = wrapper
    return got
