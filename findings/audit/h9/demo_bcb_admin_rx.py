''' C16 clause 2: "a receiver with the key recovers exactly the original plaintext".

A bundle whose payload is an administrative record (primary flag PAYLOAD_ADMIN) and whose payload
block is correctly BCB-encrypted cannot even be decoded by the receiver: Bundle.post_dissect() parses
the payload block data as an AdminRecord *before* any BCB has been processed, i.e. it parses AES-GCM
ciphertext as CBOR, and the resulting exception escapes Bundle(data) (called from
Agent._cl_recv_bundle_finish).  The bundle is lost without any security processing or report.

The sender here is the real agent too; the record is handed over as already-encoded payload octets so
that the sender-side defect shown in demo_bcb_admin_plaintext.py does not interfere.
'''
import sys
from hunt9_common import *
from bp.encoding import AdminRecord, StatusReport, StatusInfoArray, StatusInfo

rec_blk = CanonicalBlock(type_code=1, block_num=1) / AdminRecord() / StatusReport(
    status=StatusInfoArray(received=StatusInfo(status=True)), reason_code=0,
    subj_source='dtn://dst/', subj_ts=Timestamp(dtntime=5, seqno=1))
plain = cbor2.loads(bytes(rec_blk))[4]
print('admin record plaintext:', plain.hex())

lost = 0
TRIES = 8
for n in range(TRIES):
    A, clA = source()
    add_sa(A, 'bcb', enc_key(), content_iv=[bytes([0x30 + n]) * 12])
    A.send_bundle(newctr(plain, dst='dtn://dst/', crc=2, flags=int(PrimaryBlock.Flag.PAYLOAD_ADMIN)))
    wire = clA.sent[0]
    assert plain not in wire            # really encrypted on the wire
    B, clB = destination(accept=True)
    give_key(B, enc_key())
    try:
        r = rx(B, wire)
        got = bytes(r.block_num(1).btsd)
        print('IV %d: %s, plaintext recovered: %s' % (n, verdict(r), got == plain))
        if verdict(r) != 'delivered' or got != plain:
            lost += 1
    except Exception as err:
        print('IV %d: receiver raised %s: %s while decoding the bundle' % (n, type(err).__name__, err))
        lost += 1

print('expected: every bundle delivered with the original admin record recovered')
print('observed: %d of %d lost' % (lost, TRIES))
if lost:
    print('DEFECT SHOWN')
sys.exit(1 if lost else 0)
