''' C16 clause 1: "the target block's data on the wire is ciphertext (never the plaintext)".

A node with a confidentiality association for payload blocks delivers a bundle that asks for status
reports.  The agent builds the status report (BundleContainer.create_report: payload block carrying an
AdminRecord scapy payload) and sends it through the TX chain.  CoseContext.apply_bcb encrypts and puts
the ciphertext into the payload block's 'btsd' field, but Agent.send_bundle() afterwards calls
Bundle.fill_fields()/update_all_crc()/bytes(), each of which runs Bundle._update_from_admin(), which
overwrites 'btsd' with bytes(AdminRecord payload) - the plaintext.  What is transmitted is a BCB that
claims the payload is encrypted, next to the payload in clear.  (The peer then fails to decrypt it.)
'''
import sys
from hunt9_common import *

# destination node: delivers, reports back towards dtn://src/, and must encrypt every payload it sends
B, clB = destination(tx=[TxRouteItem(re.compile('.*'), 'dtn://src/', 'fake')])
add_sa(B, 'bcb', enc_key(), content_iv=[b'123456789012'])

data = mkbundle(dst='dtn://dst/svc', src='dtn://src/', report_to='dtn://src/', payload=b'x' * 10,
                flags=int(PrimaryBlock.Flag.REQ_DELIVERY_REPORT | PrimaryBlock.Flag.REQ_RECEPTION_REPORT))
print('incoming bundle:', verdict(rx(B, data)))
GLib.run_pending()                      # the deferred send_bundle(status report)
assert len(clB.sent) == 1, (clB.sent, GLib.ERRORS)
wire = clB.sent[0]
rep = Bundle(wire)
bcbs = [blk for blk in rep.blocks if blk.type_code == 12]
pyld = [blk for blk in rep.blocks if blk.type_code == 1][0]
print('status report on the wire:', wire.hex())
print('BCB present: %s, targets %s' % (bool(bcbs), bcbs[0].payload.targets if bcbs else None))
print('payload block data on the wire:', bytes(pyld.btsd).hex())
try:
    decoded = cbor2.loads(bytes(pyld.btsd))
except Exception:
    decoded = None
print('payload block data decodes as CBOR admin record:', decoded)
leak = bool(bcbs) and isinstance(decoded, list) and decoded and decoded[0] == 1

# what the report's receiver makes of it
A, clA = destination('dtn://src/', accept=True)
give_key(A, enc_key())
r = rx(A, wire)
print('at the peer holding the key:', verdict(r))

print('expected: BCB applied => payload block octets are AES-GCM ciphertext')
if leak:
    print('observed: BCB targets block 1 but block 1 carries the status report in clear  -> DEFECT SHOWN')
sys.exit(1 if leak else 0)
