import sys, os
sys.path.insert(0, os.path.join(os.path.dirname(os.path.abspath(__file__)), '..', '..'))
from bp_harness import *
data = mkbundle(dst='dtn://me/svc', payload=b'hello', dtntime=700000000456)
i = data.find(bytes.fromhex('1b000000a2fb4059c8'))
assert i > 0, data.hex()
bad = data[:i] + bytes.fromhex('c247') + data[i + 2:]
assert len(bad) == len(data)
try:
    b = Bundle(bad)
    res = b.check_all_crc()
    print('decoded; failed CRC blocks:', res, ' dtntime', b.primary.create_ts.dtntime)
    sys.exit(1 if not res else 0)
except Exception as e:
    print('refused:', type(e).__name__, e); sys.exit(0)
