import sys, os
HERE = os.path.dirname(os.path.abspath(__file__)); sys.path.insert(0, os.path.join(HERE, '..', '..')); sys.path.insert(0, os.path.join(HERE, '..', '..', 'demos'))
from bpsec_demos import *
from bpsec_demos import _ctx
from bp.encoding import BundleAgeBlock
import logging; logging.disable(logging.CRITICAL)
ops = (keyops.EncryptOp, keyops.DecryptOp)
src = _ctx(sec_type='bcb', ops=ops, alg=algorithms.A256GCM)
src.sec_assoc[0].tgt_blk_types = [7]
src.sec_assoc[0].templates[0].content_iv = [b'\x01' * 12]
b = Bundle()
b.primary = PrimaryBlock(bundle_flags=0, destination='dtn://me/svc', source='dtn://src/', report_to='dtn://src/', create_ts=Timestamp(dtntime=1000, seqno=1), lifetime=10000, crc_type=0)
b.blocks = [CanonicalBlock(type_code=1, block_num=1, crc_type=0, btsd=b'payload')]
b.fill_fields()
ctr = BundleContainer(Bundle(bytes(b)))
ctr.add_block(CanonicalBlock() / BundleAgeBlock(age=5))     # as Agent._do_fwd builds it: the type code is implied by the payload class
ctr.fix_block_num() if hasattr(ctr, 'fix_block_num') else None
ctr.bundle.fill_fields()
src.apply_bcb(ctr)
ctr.bundle.fill_fields(); ctr.bundle.update_all_crc()
wire = cbor2.loads(bytes(ctr.bundle))
types = [blk[0] for blk in wire[1:]]
print('block type codes on the wire:', types)
sys.exit(1 if None in types else 0)
