import sys, re, cbor2, random, datetime
sys.path.insert(0, '/tmp/hunt/out7')
from bp_harness import *
import indep, rawbuild as rb

NODE = 'dtn://me/'
DSTS = ['dtn://me/', 'dtn://me/app', 'dtn://far/x', 'dtn://far/y', 'dtn://other/', 'ipn:3.1', 'dtn://mex/']
SRCS = ['dtn://src/', 'dtn://me/', 'dtn://src2/', 'dtn://me/app', 'ipn:7.0']
PATS = ['dtn://me/.*', 'dtn://far/', 'dtn://far/x$', '.*', 'ipn:', 'dtn://other/', 'dtn://me/$', 'x', '']
ALLREP = 0x40000 | 0x20000 | 0x10000


def gen(rnd):
    frag = None
    flags = ALLREP
    if rnd.random() < 0.3:
        frag = (rnd.choice([0, 10]), rnd.choice([1000, 1001]))
        flags |= 1
    ts = (rnd.choice([1000, 1001]), rnd.choice([0, 1]))
    spec = dict(dst=rnd.choice(DSTS), src=rnd.choice(SRCS), rpt='dtn://rpt/', flags=flags, ts=ts, frag=frag,
                crc_type=rnd.choice([1, 2]))
    badcrc = rnd.random() < 0.1
    pri = rb.primary(**spec)
    if badcrc:
        pri[-1] = bytes(len(pri[-1]))
    payload = cbor2.dumps([1, [[[True], [False], [False], [False]], 0, [1, '//x/'], [5, 6]]]) if spec['dst'] == NODE else b'data'
    if spec['dst'] == NODE and not frag:
        spec['flags'] |= 2
        pri = rb.primary(**spec)
        if badcrc:
            pri[-1] = bytes(len(pri[-1]))
    data = rb.bundle(pri, [rb.block(1, 1, payload, 0, 1)])
    spec['badcrc'] = badcrc
    return spec, data


def ident(spec):
    i = (spec['src'],) + tuple(spec['ts'])
    if spec['frag']:
        i += tuple(spec['frag'])
    return i


def run(seed):
    rnd = random.Random(seed)
    routes = [(rnd.choice(PATS), rnd.choice(['deliver', 'forward', 'delete'])) for _ in range(rnd.randrange(0, 4))]
    a, cl = mkagent(NODE, rx=[RxRouteItem(re.compile(p), act) for (p, act) in routes],
                    tx=[TxRouteItem(re.compile('.*'), 'dtn://next/', 'fake')])
    seen = set()
    errs = []
    history = []
    pool = []
    for step in range(rnd.randrange(1, 12)):
        if pool and rnd.random() < 0.4:
            spec, data = rnd.choice(pool)
        else:
            spec, data = gen(rnd)
            pool.append((spec, data))
        history.append(spec)
        # model
        exp = None
        if spec['badcrc'] or spec['src'] == NODE or ident(spec) in seen:
            exp = None
        else:
            seen.add(ident(spec))
            if spec['dst'] == NODE:
                exp = 'deliver'
            else:
                for (p, act) in routes:
                    if re.compile(p).match(spec['dst']):
                        exp = act
                        break
        if exp == 'deliver' and spec['frag']:
            exp = None  # held for reassembly (never completes here)
        del cl.sent[:]
        try:
            a.recv_bundle(BundleContainer(Bundle(data)))
            GLib.run_pending()
        except Exception as e:
            errs.append('step %d EXC %s' % (step, e))
            continue
        got_fwd = 0
        got_rep = []
        for s in cl.sent:
            d = indep.decode(s)
            if d['flags'] & 2 and d['source'] == NODE:
                rec = cbor2.loads(d['blocks'][-1]['data'])
                st = rec[1][0]
                got_rep.append(tuple(bool(x[0]) for x in st))
            else:
                got_fwd += 1
        want_fwd = 1 if exp == 'forward' else 0
        want_rep = {None: [], 'deliver': [(False, False, True, False)], 'forward': [(False, True, False, False)],
                    'delete': [(False, False, False, True)]}[exp]
        if got_fwd != want_fwd or got_rep != want_rep:
            errs.append('step %d spec %s routes %s expected %s got fwd=%d rep=%s' % (step, spec, routes, exp, got_fwd, got_rep))
        if GLib.ERRORS:
            errs.append('step %d glib %s' % (step, GLib.ERRORS))
            del GLib.ERRORS[:]
    return errs


if __name__ == '__main__':
    bad = 0
    for seed in range(int(sys.argv[1]) if len(sys.argv) > 1 else 300):
        errs = run(seed)
        if errs:
            bad += 1
            if bad < 8:
                print(seed, '\n   '.join(errs))
    print('bad', bad)
