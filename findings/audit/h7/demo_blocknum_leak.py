''' C10 / C11: the block number given to the Previous Node (and Bundle Age) block
of one forwarded bundle leaks, process wide, into every later forwarded bundle.

Sequence: bundle 1 has only a payload block; bundle 2 (different identity)
carries a Hop Count block numbered 2.  Both match a "forward" receive route and
a transmit route exists.  Expected: both are forwarded.  Observed: bundle 2 is
never transmitted and a deletion report "no known route" is emitted instead.

exit 1 when the defect shows.
'''
import os, sys, re
sys.path.insert(0, os.path.dirname(os.path.abspath(__file__)))
from bp_harness import *
import cbor2
import indep, rawbuild as rb

REQ_DELETE = 0x040000

agent, cl = mkagent('dtn://me/',
                    rx=[RxRouteItem(re.compile(r'dtn://far/'), 'forward')],
                    tx=[TxRouteItem(re.compile(r'.*'), 'dtn://next/', 'fake')])

b1 = rb.bundle(rb.primary(ts=(1000, 1), flags=REQ_DELETE), [rb.block(1, 1, b'first')])
b2 = rb.bundle(rb.primary(ts=(1000, 2), flags=REQ_DELETE),
               [rb.block(10, 2, cbor2.dumps([30, 4])), rb.block(1, 1, b'second')])


def feed(data):
    del cl.sent[:]
    agent.recv_bundle(BundleContainer(Bundle(data)))
    GLib.run_pending()
    out = [indep.decode(s) for s in cl.sent]
    fwd = [d for d in out if not d['flags'] & 2]
    rep = [cbor2.loads(d['blocks'][-1]['data']) for d in out if d['flags'] & 2]
    return fwd, rep


fwd1, rep1 = feed(b1)
print('bundle 1: forwarded copies = %d, reports = %s' % (len(fwd1), rep1))
for d in fwd1:
    print(indep.show(d))
fwd2, rep2 = feed(b2)
print('bundle 2: forwarded copies = %d, reports = %s' % (len(fwd2), rep2))
for d in fwd2:
    print(indep.show(d))

print('class-level overload dict now: %r' % (PreviousNodeBlock._overload_fields[CanonicalBlock],))
print()
print('EXPECTED: bundle 2 matches the "forward" route and a transmit route exists, so exactly one copy')
print('          leaves the node with hop count [30, 5] and a Previous Node block; no deletion report.')
bad = False
if len(fwd1) != 1:
    print('UNEXPECTED: bundle 1 itself was not forwarded')
    bad = True
if len(fwd2) != 1:
    deleted = [r for r in rep2 if r[0] == 1 and r[1][0][3][0]]
    print('OBSERVED: bundle 2 was NOT forwarded; deletion reports: %s (reason code %s = no known route)' % (
        len(deleted), deleted[0][1][1] if deleted else None))
    bad = True
if bad:
    print('DEFECT SHOWN')
    sys.exit(1)
print('no defect')
sys.exit(0)
