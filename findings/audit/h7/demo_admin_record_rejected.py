''' C10: "bundles addressed to the node's own administrative endpoint are
delivered" / "the action taken is that of the first receive route whose pattern
matches the destination".

Bundle() parses the payload of every bundle flagged "administrative record"
while DECODING, before the agent sees it.  A status report this model cannot
hold makes the decode raise out of the convergence-layer callback, so the
bundle is neither delivered nor forwarded:

  * reason code 11 ("Block unsupported", RFC 9171 6.1.1) is missing from
    StatusReport.ReasonCode, the EnumField raises, scapy falls back to Raw(list)
    which raises TypeError;
  * a status-information array of 5 elements ("at least 4", RFC 9171 6.1.1).

Control: the same report with reason code 6 is delivered / forwarded.
exit 1 when the defect shows.
'''
import os, sys, re
sys.path.insert(0, os.path.dirname(os.path.abspath(__file__)))
from bp_harness import *
import cbor2
import indep, rawbuild as rb

ADMIN = 0x02
seq = [0]


def offer(dst, record):
    ''' :return: (delivered-to-status-handler count, forwarded count, exception) '''
    agent, cl = mkagent('dtn://me/',
                        rx=[RxRouteItem(re.compile(r'dtn://far/'), 'forward')],
                        tx=[TxRouteItem(re.compile(r'dtn://far/'), 'dtn://next/', 'fake')])
    delivered = []
    admin = agent._app['admin']
    admin._rec_type_map[1] = lambda ctr, msg: delivered.append(msg)
    seq[0] += 1
    data = rb.bundle(rb.primary(dst=dst, flags=ADMIN, ts=(1000, seq[0])),
                     [rb.block(1, 1, cbor2.dumps(record), crc_type=2)])
    exc = None
    try:
        agent._cl_recv_bundle_finish('fake')(data, {})   # what the CL adaptor calls
        GLib.run_pending()
    except Exception as err:
        exc = '%s: %s' % (type(err).__name__, err)
    return len(delivered), len(cl.sent), exc


def report(reason, nstatus=4):
    status = [[True]] + [[False]] * (nstatus - 1)
    return [1, [status, reason, [1, '//x/'], [5, 6]]]


bad = False
for (label, rec) in (('reason code 6 (control)', report(6)),
                     ('reason code 11 "Block unsupported"', report(11)),
                     ('5 status-information items', report(0, 5))):
    d, f, exc = offer('dtn://me/', rec)
    print('%-38s to own admin endpoint : delivered=%d exception=%s' % (label, d, exc))
    if d != 1:
        bad = True
    d, f, exc = offer('dtn://far/x', rec)
    print('%-38s in transit (forward)  : forwarded=%d exception=%s' % (label, f, exc))
    if f != 1:
        bad = True

print()
print('EXPECTED: each of the three reports is delivered once at dtn://me/ and forwarded once in transit')
if bad:
    print('OBSERVED: see above - DEFECT SHOWN')
    sys.exit(1)
print('no defect')
sys.exit(0)
