''' C11 (low severity): "unique block numbers with the payload block numbered 1
and last ... for all received bundles (... any block numbering)".

Nothing on the receive or forward path checks where the payload block is or
what its number is; add_block() inserts new blocks "before the last block"
whatever that block is.  A received bundle that is malformed in this respect is
neither refused nor normalised - it leaves the node still malformed, with the
node's own Previous Node / Bundle Age blocks spliced into it.

exit 1 when the defect shows.
'''
import os, sys, re
sys.path.insert(0, os.path.dirname(os.path.abspath(__file__)))
from bp_harness import *
import indep, rawbuild as rb


def forward(data):
    for cls in (PreviousNodeBlock, BundleAgeBlock):   # keep clear of the block-number leak (separate defect)
        cls._overload_fields[CanonicalBlock].pop('block_num', None)
    agent, cl = mkagent('dtn://me/',
                        rx=[RxRouteItem(re.compile(r'dtn://far/'), 'forward')],
                        tx=[TxRouteItem(re.compile(r'dtn://far/'), 'dtn://next/', 'fake')])
    agent.recv_bundle(BundleContainer(Bundle(data)))
    GLib.run_pending()
    return [indep.decode(s) for s in cl.sent]


bad = False
for (label, blocks) in (
        ('payload block numbered 2, extension block numbered 1', [rb.block(200, 1, b'x'), rb.block(1, 2, b'payload')]),
        ('payload block first, extension block after it', [rb.block(1, 1, b'payload'), rb.block(200, 2, b'x')])):
    out = forward(rb.bundle(rb.primary(), blocks))
    print('== received: %s' % label)
    print('   EXPECTED: not forwarded, or forwarded with the payload block numbered 1 and last')
    for d in out:
        layout = [(b['type'], b['num']) for b in d['blocks']]
        print('   OBSERVED (type, number) on the wire: %s' % layout)
        if layout[-1] != (1, 1):
            bad = True

if bad:
    print('DEFECT SHOWN')
    sys.exit(1)
print('no defect')
sys.exit(0)
