''' Independent RFC 9171 encoder used by the demos (cbor2 only, no project code).
'''
import struct
import cbor2
from indep import _crc32c, _x25


def enc_eid(text):
    if text == 'dtn:none':
        return [1, 0]
    if text.startswith('dtn:'):
        return [1, text[4:]]
    if text.startswith('ipn:'):
        return [2, [int(p) for p in text[4:].split('.')]]
    raise ValueError(text)


def with_crc(arr, crc_type):
    if not crc_type:
        return arr
    width = {1: 2, 2: 4}[crc_type]
    tmp = list(arr) + [b'\x00' * width]
    enc = cbor2.dumps(tmp)
    val = _x25(enc) if crc_type == 1 else _crc32c(enc)
    return list(arr) + [struct.pack('>H' if crc_type == 1 else '>L', val)]


def primary(dst='dtn://far/x', src='dtn://src/', rpt='dtn://src/', flags=0, ts=(1000, 1),
            lifetime=10000, crc_type=2, frag=None, version=7):
    arr = [version, flags, crc_type, enc_eid(dst), enc_eid(src), enc_eid(rpt), list(ts), lifetime]
    if frag is not None:
        arr += list(frag)
    return with_crc(arr, crc_type)


def block(type_code, num, data, flags=0, crc_type=0):
    ''' data is the BTSD octets '''
    return with_crc([type_code, num, flags, crc_type, data], crc_type)


def bundle(pri, blocks):
    return b'\x9f' + b''.join(cbor2.dumps(i) for i in [pri] + list(blocks)) + b'\xff'
