''' C11 (destination / source / report-to unchanged) and C10 (action of the first
matching route is taken).

A dtn-scheme EID may contain '?' and '#' in its demux part (RFC 9171 4.2.5.1.1:
demux = *VCHAR).  EidField.i2m re-encodes an EID through urllib.parse.urlsplit
and keeps only authority + path, so everything from the first '?' or '#' on is
lost whenever a primary block is re-encoded.

case 1  primary block without CRC: the bundle is forwarded with destination,
        source and report-to truncated (source truncated = another identity).
case 2  same bundle with CRC-32C on the primary block: the receive CRC check
        is computed over the *re-encoded* block, so the valid CRC is judged
        invalid and the bundle is silently dropped although a "forward" route
        matches it.

exit 1 when either shows.
'''
import os, sys, re
sys.path.insert(0, os.path.dirname(os.path.abspath(__file__)))
from bp_harness import *
import indep, rawbuild as rb

DST, SRC, RPT = 'dtn://far/inbox?user=7', 'dtn://src/app?inst=2', 'dtn://src/reports#a'


def forward(data):
    agent, cl = mkagent('dtn://me/',
                        rx=[RxRouteItem(re.compile(r'dtn://far/'), 'forward')],
                        tx=[TxRouteItem(re.compile(r'dtn://far/'), 'dtn://next/', 'fake')])
    agent.recv_bundle(BundleContainer(Bundle(data)))
    GLib.run_pending()
    return [indep.decode(s) for s in cl.sent]


bad = False
print('== case 1: primary block CRC type 0')
rx = rb.bundle(rb.primary(dst=DST, src=SRC, rpt=RPT, crc_type=0), [rb.block(1, 1, b'payload', crc_type=2)])
out = forward(rx)
print('   EXPECTED: destination %s source %s report-to %s' % (DST, SRC, RPT))
for d in out:
    print('   OBSERVED: destination %s source %s report-to %s' % (d['destination'], d['source'], d['report_to']))
    if (d['destination'], d['source'], d['report_to']) != (DST, SRC, RPT):
        bad = True
if not out:
    print('   OBSERVED: nothing transmitted')
    bad = True

print('== case 2: primary block CRC type 2 (CRC-32C)')
rx = rb.bundle(rb.primary(dst=DST, src=SRC, rpt=RPT, crc_type=2), [rb.block(1, 1, b'payload', crc_type=2)])
chk = indep.decode(rx)
print('   independent check of the received primary CRC: valid=%s' % chk['primary_crc_ok'])
print('   project check_all_crc() on the same octets: failed blocks %s' % Bundle(rx).check_all_crc())
out = forward(rx)
print('   EXPECTED: one bundle forwarded, primary fields unchanged')
print('   OBSERVED: %d bundle(s) transmitted' % len(out))
if len(out) != 1 or (out[0]['destination'], out[0]['source'], out[0]['report_to']) != (DST, SRC, RPT):
    bad = True

if bad:
    print('DEFECT SHOWN')
    sys.exit(1)
print('no defect')
sys.exit(0)
