''' C11: a received bundle that is forwarded over a route with an MTU (and is
therefore sent as fragments) gets the ORIGINATION defaults applied to every
fragment: a zero creation time (source without a clock, RFC 9171 4.2.7) is
replaced by this node's clock - a different value in each fragment - and a zero
lifetime becomes one hour.

Expected: every fragment carries the received creation timestamp and lifetime.
exit 1 when the defect shows.
'''
import os, sys, re
sys.path.insert(0, os.path.dirname(os.path.abspath(__file__)))
from bp_harness import *
import cbor2
import indep, rawbuild as rb


def forward(data, mtu):
    agent, cl = mkagent('dtn://me/',
                        rx=[RxRouteItem(re.compile(r'dtn://far/'), 'forward')],
                        tx=[TxRouteItem(re.compile(r'dtn://far/'), 'dtn://next/', 'fake', mtu=mtu)])
    agent.recv_bundle(BundleContainer(Bundle(data)))
    GLib.run_pending()
    return [indep.decode(s) for s in cl.sent]


bad = False

print('== case 1: creation time 0 (clockless source) with a Bundle Age block, 300 octet payload, MTU 200')
rx = rb.bundle(rb.primary(ts=(0, 5), lifetime=60000),
               [rb.block(7, 2, cbor2.dumps(5000)), rb.block(1, 1, bytes(range(100)) * 3)])
whole = forward(rx, None)
print('   without MTU: %d bundle, creation timestamp %s' % (len(whole), whole[0]['create_ts']))
frags = forward(rx, 200)
stamps = [f['create_ts'] for f in frags]
print('   with MTU 200: %d fragments, creation timestamps %s' % (len(frags), stamps))
print('   EXPECTED: every fragment keeps creation timestamp (0, 5)')
if any(s != (0, 5) for s in stamps):
    print('   OBSERVED: creation timestamp rewritten; %d distinct values, so the fragments do not even share an identity'
          % len(set(stamps)))
    bad = True

print('== case 2: lifetime 0, creation time 1000, MTU 200')
rx = rb.bundle(rb.primary(ts=(1000, 1), lifetime=0), [rb.block(1, 1, bytes(range(100)) * 3)])
whole = forward(rx, None)
print('   without MTU: lifetime %s' % [w['lifetime'] for w in whole])
frags = forward(rx, 200)
lifes = [f['lifetime'] for f in frags]
print('   with MTU 200: %d fragments, lifetimes %s' % (len(frags), lifes))
print('   EXPECTED: lifetime 0 in every fragment')
if any(l != 0 for l in lifes):
    print('   OBSERVED: lifetime changed')
    bad = True

if bad:
    print('DEFECT SHOWN')
    sys.exit(1)
print('no defect')
sys.exit(0)
