''' C11: "payload unchanged ... the bytes actually transmitted show these values".

When the primary block has the "payload is an administrative record" flag, the
decoder parses the payload into an AdminRecord object and every later build
(Bundle._update_from_admin) REPLACES the payload block data by a re-encoding of
that object - also on a transit node that merely forwards the bundle.  Any
record that does not round-trip octet-for-octet through the project's model is
altered in flight:

case 1  a status report whose status time is encoded as a valid but not
        shortest-form CBOR uint (RFC 9171 does not require shortest form):
        the payload octets (and length) change.
case 2  an administrative record of a type this node does not know, sent as
        an indefinite-length array: re-encoded as a definite-length one.
(Records the model cannot hold at all are not forwarded at all, see
demo_admin_record_rejected.py.)

exit 1 when either shows.
'''
import os, sys, re
sys.path.insert(0, os.path.dirname(os.path.abspath(__file__)))
from bp_harness import *
import cbor2
import indep, rawbuild as rb

ADMIN = 0x02


def forward(data):
    agent, cl = mkagent('dtn://me/',
                        rx=[RxRouteItem(re.compile(r'dtn://far/'), 'forward')],
                        tx=[TxRouteItem(re.compile(r'dtn://far/'), 'dtn://next/', 'fake')])
    agent._cl_recv_bundle_finish('fake')(data, {})   # the CL "bundle received" entry point
    GLib.run_pending()
    return [indep.decode(s) for s in cl.sent]


bad = False

print('== case 1: status report, status time 5 encoded as 1b0000000000000005')
canon = cbor2.dumps([1, [[[True, 5], [False], [False], [False]], 0, [1, '//x/'], [5, 6]]])
payload = canon.replace(bytes.fromhex('82f505'), bytes.fromhex('82f51b0000000000000005'))
assert cbor2.loads(payload) == cbor2.loads(canon) and payload != canon
out = forward(rb.bundle(rb.primary(flags=ADMIN), [rb.block(1, 1, payload, crc_type=2)]))
assert len(out) == 1
got = out[0]['blocks'][-1]['data']
print('   EXPECTED payload: %s (%d octets)' % (payload.hex(), len(payload)))
print('   OBSERVED payload: %s (%d octets)' % (got.hex(), len(got)))
if got != payload:
    bad = True

print('== case 2: unknown record type 7 sent as an indefinite-length array 9f07a10102ff')
payload = bytes.fromhex('9f07a10102ff')
out = forward(rb.bundle(rb.primary(flags=ADMIN, ts=(1000, 2)), [rb.block(1, 1, payload, crc_type=2)]))
assert len(out) == 1
got = out[0]['blocks'][-1]['data']
print('   EXPECTED payload: %s' % payload.hex())
print('   OBSERVED payload: %s' % got.hex())
if got != payload:
    bad = True

if bad:
    print('DEFECT SHOWN')
    sys.exit(1)
print('no defect')
sys.exit(0)
