''' C11: "at most one Bundle Age block whose age reflects time since creation".

case 1  creation time slightly AHEAD of this node's clock (ordinary clock skew,
        here 60 s): age = now - creation is negative and is written to the wire
        as a CBOR negative integer in a field defined as unsigned.
case 2  creation time 0 (source without clock, RFC 9171 4.2.7/4.4.2: the Bundle
        Age block is then REQUIRED and is the only record of time since
        creation): the received age block is removed and none is put back, so
        the age information does not leave the node at all.

exit 1 when either shows.
'''
import os, sys, re, datetime
sys.path.insert(0, os.path.dirname(os.path.abspath(__file__)))
from bp_harness import *
import cbor2
import indep, rawbuild as rb


def now_dtn():
    epoch = datetime.datetime(2000, 1, 1, tzinfo=datetime.timezone.utc)
    return int((datetime.datetime.now(datetime.timezone.utc) - epoch) / datetime.timedelta(milliseconds=1))


def forward(data):
    agent, cl = mkagent('dtn://me/',
                        rx=[RxRouteItem(re.compile(r'dtn://far/'), 'forward')],
                        tx=[TxRouteItem(re.compile(r'dtn://far/'), 'dtn://next/', 'fake')])
    agent.recv_bundle(BundleContainer(Bundle(data)))
    GLib.run_pending()
    assert len(cl.sent) == 1, (cl.sent, GLib.ERRORS)
    return cl.sent[0]


bad = False

print('== case 1: creation time 60 s ahead of the local clock')
raw = forward(rb.bundle(rb.primary(ts=(now_dtn() + 60000, 0)), [rb.block(1, 1, b'payload')]))
tx = indep.decode(raw)
print(indep.show(tx))
ages = [b['data'] for b in tx['blocks'] if b['type'] == 7]
print('   age block data octets: %s -> %r' % ([a.hex() for a in ages], [cbor2.loads(a) for a in ages]))
print('   EXPECTED: an unsigned age (CBOR major type 0), e.g. 0, or no age block')
for a in ages:
    if a[0] >> 5 != 0:
        print('   OBSERVED: CBOR major type %d (negative integer) in the Bundle Age block' % (a[0] >> 5))
        bad = True

print('== case 2: creation time 0 with Bundle Age 5000 ms received')
# (the age block is numbered 9 only to stay clear of the separate block-number leak, see demo_blocknum_leak.py)
raw = forward(rb.bundle(rb.primary(ts=(0, 7)), [rb.block(7, 9, cbor2.dumps(5000)), rb.block(1, 1, b'payload')]))
tx = indep.decode(raw)
print(indep.show(tx))
ages = [cbor2.loads(b['data']) for b in tx['blocks'] if b['type'] == 7]
print('   EXPECTED: one Bundle Age block with age >= 5000 (time since creation is only known through it)')
print('   OBSERVED: age blocks %s' % ages)
if len(ages) != 1 or ages[0] < 5000:
    bad = True

if bad:
    print('DEFECT SHOWN')
    sys.exit(1)
print('no defect')
sys.exit(0)
