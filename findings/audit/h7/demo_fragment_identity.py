''' C10: identity of a fragment is "source, creation timestamp, fragment offset
and LENGTH" (statement; RFC 9171 bundle ID: offset and payload length).

BundleContainer.bundle_ident() uses (offset, total application data unit
length) instead of (offset, fragment payload length).  Two different fragments
of one bundle that start at the same offset but carry different amounts of data
(the bundle was fragmented differently on two paths) are taken for repeats of
each other: the second is dropped as "already seen" although its identity was
never seen, and the route action (deliver) is not taken for it.

Sequence at the destination node (route: deliver), 100 octet ADU:
    F1 = [0,50)    from path A (its sibling [50,100) was lost)
    F2 = [0,80)    from path B   <- dropped as duplicate of F1
    F3 = [80,100)  from path B
All 100 octets have arrived, F2+F3 alone are the whole bundle.
Expected: the bundle is reassembled and delivered once (one delivery report).
exit 1 when the defect shows.
'''
import os, sys, re
sys.path.insert(0, os.path.dirname(os.path.abspath(__file__)))
from bp_harness import *
import cbor2
import indep, rawbuild as rb

REQ_DELIVERY = 0x020000
FRAG = 0x01
adu = bytes(range(100))

agent, cl = mkagent('dtn://me/',
                    rx=[RxRouteItem(re.compile(r'dtn://me/app'), 'deliver')],
                    tx=[TxRouteItem(re.compile(r'.*'), 'dtn://next/', 'fake')])


def frag(lo, hi):
    return rb.bundle(rb.primary(dst='dtn://me/app', flags=REQ_DELIVERY | FRAG, ts=(1000, 1), frag=(lo, len(adu))),
                     [rb.block(1, 1, adu[lo:hi], crc_type=2)])


for (lo, hi) in ((0, 50), (0, 80), (80, 100)):
    ctr = BundleContainer(Bundle(frag(lo, hi)))
    ident = ctr.bundle_ident()
    known = ident in agent._seen_bundle_ident
    agent.recv_bundle(ctr)
    GLib.run_pending()
    print('fragment [%d,%d): project identity %s %s' % (lo, hi, ident, '-> treated as already seen' if known else ''))

reports = []
for s in cl.sent:
    d = indep.decode(s)
    if d['flags'] & 2:
        reports.append(cbor2.loads(d['blocks'][-1]['data']))
delivered = [r for r in reports if r[1][0][2][0]]
pending = agent._app['fragment']._reassembly
print('delivery reports: %d; reassemblies still pending: %s' % (
    len(delivered), {k: repr(v.valid) for (k, v) in pending.items()}))
print()
print('EXPECTED: [0,50) and [0,80) are different identities; after [80,100) the bundle is complete,')
print('          delivered once and one delivery report is sent')
if len(delivered) != 1:
    print('OBSERVED: fragment [0,80) ignored, bundle never delivered - DEFECT SHOWN')
    sys.exit(1)
print('no defect')
sys.exit(0)
