''' Independent RFC 9171 decoder used by the demos (cbor2 only, no project code).
'''
import io
import struct
import cbor2


def _crc32c(data):
    crc = 0xFFFFFFFF
    for b in data:
        crc ^= b
        for _ in range(8):
            crc = (crc >> 1) ^ (0x82F63B78 if crc & 1 else 0)
    return crc ^ 0xFFFFFFFF


def _x25(data):
    crc = 0xFFFF
    for b in data:
        crc ^= b
        for _ in range(8):
            crc = (crc >> 1) ^ (0x8408 if crc & 1 else 0)
    return crc ^ 0xFFFF


def eid(item):
    if item[0] == 1:
        return 'dtn:none' if item[1] == 0 else 'dtn:' + item[1]
    if item[0] == 2:
        return 'ipn:' + '.'.join(str(i) for i in item[1])
    return repr(item)


def crc_ok(block, crc_type):
    ''' Check the CRC of one decoded block array. '''
    if crc_type == 0:
        return True
    width = {1: 2, 2: 4}[crc_type]
    zeroed = list(block[:-1]) + [b'\x00' * width]
    enc = cbor2.dumps(zeroed)
    val = _x25(enc) if crc_type == 1 else _crc32c(enc)
    return block[-1] == struct.pack('>H' if crc_type == 1 else '>L', val)


def decode(data):
    ''' :return: dict with primary fields and list of canonical blocks. '''
    if data[:1] != b'\x9f' or data[-1:] != b'\xff':
        raise ValueError('not an indefinite array')
    items = cbor2.loads(data)
    pri = items[0]
    out = dict(
        version=pri[0], flags=pri[1], crc_type=pri[2],
        destination=eid(pri[3]), source=eid(pri[4]), report_to=eid(pri[5]),
        create_ts=tuple(pri[6]), lifetime=pri[7],
        raw_primary=pri,
    )
    ix = 8
    if pri[1] & 1:
        out['fragment_offset'] = pri[ix]
        out['total_adu_len'] = pri[ix + 1]
        ix += 2
    out['primary_len_ok'] = (len(pri) == ix + (1 if pri[2] else 0))
    out['primary_crc_ok'] = crc_ok(pri, pri[2]) if out['primary_len_ok'] else False
    blocks = []
    for blk in items[1:]:
        rec = dict(type=blk[0], num=blk[1], flags=blk[2], crc_type=blk[3], data=blk[4],
                   crc_ok=crc_ok(blk, blk[3]))
        blocks.append(rec)
    out['blocks'] = blocks
    return out


def show(dec):
    lines = ['primary: v=%s flags=0x%x dst=%s src=%s rpt=%s ts=%s life=%s crc_ok=%s' % (
        dec['version'], dec['flags'], dec['destination'], dec['source'], dec['report_to'],
        dec['create_ts'], dec['lifetime'], dec['primary_crc_ok'])]
    if 'fragment_offset' in dec:
        lines[0] += ' frag=%s/%s' % (dec['fragment_offset'], dec['total_adu_len'])
    for b in dec['blocks']:
        try:
            inner = cbor2.loads(b['data']) if b['type'] != 1 else '<%d octets>' % len(b['data'])
        except Exception:
            inner = b['data'].hex()
        lines.append('  block type=%s num=%s flags=%s crc_type=%s crc_ok=%s data=%r' % (
            b['type'], b['num'], b['flags'], b['crc_type'], b['crc_ok'], inner))
    return '\n'.join(lines)
