import sys, re, cbor2, random, datetime
sys.path.insert(0, '/tmp/hunt/out7')
from bp_harness import *
import indep, rawbuild as rb

NODE = 'dtn://me/'
EIDS = ['dtn://far/x', 'ipn:12.3', 'dtn://a.b-c_d/svc/sub', 'dtn://far/', 'dtn://far/~mc', 'dtn://far/a%20b', 'dtn://far/x;p=1', 'dtn://far//x', 'dtn://far/x/']
SRCS = ['dtn://src/', 'ipn:7.0', 'dtn://src/app', 'dtn:none']


def now_dtn():
    return int((datetime.datetime.now(datetime.timezone.utc) - datetime.datetime(2000, 1, 1, tzinfo=datetime.timezone.utc)) / datetime.timedelta(milliseconds=1))


def gen(rnd):
    nblk = rnd.randrange(0, 5)
    nums = rnd.sample(range(2, 30), nblk)
    blocks = []
    for num in nums:
        kind = rnd.choice(['pn', 'pn', 'hop', 'age', 'unk', 'unk'])
        crc = rnd.choice([0, 1, 2])
        flags = rnd.choice([0, 1, 2, 0x10, 0x13])
        if kind == 'pn':
            blocks.append(rb.block(6, num, cbor2.dumps(rb.enc_eid(rnd.choice(['dtn://prev/', 'ipn:9.0']))), flags, crc))
        elif kind == 'hop':
            blocks.append(rb.block(10, num, cbor2.dumps([rnd.choice([30, 255]), rnd.choice([0, 1, 23, 29])]), flags, crc))
        elif kind == 'age':
            blocks.append(rb.block(7, num, cbor2.dumps(rnd.choice([0, 5, 100000])), flags, crc))
        else:
            blocks.append(rb.block(rnd.choice([192, 200, 11, 12, 13, 14]), num, bytes(rnd.randrange(256) for _ in range(rnd.randrange(0, 20))), flags, crc))
    payload = bytes(rnd.randrange(256) for _ in range(rnd.choice([0, 1, 23, 24, 100, 255, 256, 700])))
    blocks.append(rb.block(1, 1, payload, rnd.choice([0, 1]), rnd.choice([0, 1, 2])))
    flags = rnd.choice([0, 4, 0x40000, 0x10000, 0x14040, 0x20])
    ts = (rnd.choice([now_dtn() - 5000, 1000, now_dtn() - 1]), rnd.randrange(0, 1000))
    pri = rb.primary(dst=rnd.choice(EIDS), src=rnd.choice(SRCS), rpt=rnd.choice(SRCS), flags=flags, ts=ts,
                     lifetime=rnd.choice([1, 1000, 3600000, 2**40]), crc_type=rnd.choice([1, 2, 0]))
    return rb.bundle(pri, blocks)


def check(rx, tx_list):
    errs = []
    r = indep.decode(rx)
    if len(tx_list) != 1:
        return ['%d bundles transmitted' % len(tx_list)]
    t = indep.decode(tx_list[0])
    for k in ('version', 'flags', 'destination', 'source', 'report_to', 'create_ts', 'lifetime'):
        if r[k] != t[k]:
            errs.append('primary %s %r -> %r' % (k, r[k], t[k]))
    if r['raw_primary'][:8] != t['raw_primary'][:8]:
        errs.append('raw primary differs')
    if not t['primary_crc_ok']:
        errs.append('primary crc bad')
    if r['crc_type'] != t['crc_type']:
        errs.append('primary crc type changed')
    rp = [b for b in r['blocks'] if b['type'] == 1]
    tp = [b for b in t['blocks'] if b['type'] == 1]
    if len(tp) != 1 or tp[0]['data'] != rp[0]['data']:
        errs.append('payload changed')
    if t['blocks'][-1]['type'] != 1 or t['blocks'][-1]['num'] != 1:
        errs.append('payload not last/1')
    nums = [b['num'] for b in t['blocks']]
    if len(set(nums)) != len(nums) or 0 in nums:
        errs.append('block nums %s' % nums)
    pn = [b for b in t['blocks'] if b['type'] == 6]
    if len(pn) != 1 or cbor2.loads(pn[0]['data']) != [1, '//me/']:
        errs.append('prev node blocks: %s' % [cbor2.loads(b['data']) for b in pn])
    rh = sorted((b['num'], cbor2.loads(b['data'])) for b in r['blocks'] if b['type'] == 10)
    th = sorted((b['num'], cbor2.loads(b['data'])) for b in t['blocks'] if b['type'] == 10)
    if [(n, [l, c + 1]) for (n, (l, c)) in rh] != th:
        errs.append('hop %s -> %s' % (rh, th))
    ages = [cbor2.loads(b['data']) for b in t['blocks'] if b['type'] == 7]
    if len(ages) > 1:
        errs.append('ages %s' % ages)
    for a in ages:
        exp = now_dtn() - r['create_ts'][0]
        if not isinstance(a, int) or a < 0 or abs(a - exp) > 2000:
            errs.append('age %s expected about %s' % (a, exp))
    for b in t['blocks']:
        if not b['crc_ok']:
            errs.append('block %s crc bad' % b['num'])
    # untouched blocks
    for b in r['blocks']:
        if b['type'] in (6, 7, 10):
            continue
        m = [x for x in t['blocks'] if x['num'] == b['num']]
        if len(m) != 1 or any(m[0][k] != b[k] for k in ('type', 'flags', 'crc_type', 'data')):
            errs.append('block %s changed: %s -> %s' % (b['num'], b, m))
    # order of untouched blocks
    return errs


def run(seed):
    rnd = random.Random(seed)
    data = gen(rnd)
    for c in (PreviousNodeBlock, BundleAgeBlock):
        c._overload_fields[CanonicalBlock].pop('block_num', None)
    a, cl = mkagent(NODE, rx=[RxRouteItem(re.compile('.*'), 'forward')],
                    tx=[TxRouteItem(re.compile('.*'), 'dtn://next/', 'fake')])
    try:
        a.recv_bundle(BundleContainer(Bundle(data)))
        GLib.run_pending()
    except Exception as e:
        return data, ['EXC %s %s' % (type(e).__name__, e)]
    errs = check(data, [s for s in cl.sent if not (indep.decode(s)['flags'] & 2)])
    if GLib.ERRORS:
        errs.append('GLib errors %s' % GLib.ERRORS)
    return data, errs


if __name__ == '__main__':
    bad = 0
    for seed in range(int(sys.argv[1]) if len(sys.argv) > 1 else 300):
        data, errs = run(seed)
        if errs:
            bad += 1
            print(seed, errs)
            if bad < 4:
                print(indep.show(indep.decode(data)))
    print('bad', bad)
