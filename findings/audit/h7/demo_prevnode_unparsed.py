''' C11: "exactly one Previous Node block naming this node".

The stale Previous Node block is looked up by the *parsed payload class*
(ctr.block_type(PreviousNodeBlock)).  A type-6 block whose EID this node cannot
parse - here an EID of a scheme code this implementation does not know (3),
which RFC 9171 4.2.5.1 allows a peer to use - has no parsed payload, is not
found, and stays in the bundle next to the new block.

Expected: one type-6 block, [1, "//me/"].  exit 1 when the defect shows.
'''
import os, sys, re
sys.path.insert(0, os.path.dirname(os.path.abspath(__file__)))
from bp_harness import *
import cbor2
import indep, rawbuild as rb

agent, cl = mkagent('dtn://me/',
                    rx=[RxRouteItem(re.compile(r'dtn://far/'), 'forward')],
                    tx=[TxRouteItem(re.compile(r'dtn://far/'), 'dtn://next/', 'fake')])

rx = rb.bundle(rb.primary(), [
    rb.block(6, 2, cbor2.dumps([3, 'node-of-other-scheme']), crc_type=1),
    rb.block(1, 1, b'payload', crc_type=2),
])
print('received:')
print(indep.show(indep.decode(rx)))
agent.recv_bundle(BundleContainer(Bundle(rx)))
GLib.run_pending()
assert len(cl.sent) == 1, cl.sent
tx = indep.decode(cl.sent[0])
print('transmitted:')
print(indep.show(tx))
pn = [cbor2.loads(b['data']) for b in tx['blocks'] if b['type'] == 6]
print()
print('EXPECTED: exactly one Previous Node block: [[1, "//me/"]]')
print('OBSERVED: %d Previous Node block(s): %s' % (len(pn), pn))
if pn != [[1, '//me/']]:
    print('DEFECT SHOWN')
    sys.exit(1)
print('no defect')
sys.exit(0)
