import sys, re, cbor2, random
sys.path.insert(0, '/tmp/hunt/out7')
import fuzz_fwd
from fuzz_fwd import *
def run(seed):
    rnd = random.Random(seed)
    data = gen(rnd)
    mtu = rnd.choice([100, 150, 200, 300, 500])
    for c in (PreviousNodeBlock, BundleAgeBlock):
        c._overload_fields[CanonicalBlock].pop('block_num', None)
    a, cl = mkagent(NODE, rx=[RxRouteItem(re.compile('.*'), 'forward')],
                    tx=[TxRouteItem(re.compile('^(?!dtn://src|ipn:7|dtn:none)'), 'dtn://next/', 'fake', mtu=mtu)])
    a.recv_bundle(BundleContainer(Bundle(data)))
    GLib.run_pending()
    r = indep.decode(data)
    sent = [indep.decode(s) for s in cl.sent]
    errs = []
    if len(sent) == 1 and not sent[0]['flags'] & 1:
        if len(cl.sent[0]) > mtu and not r['flags'] & 4: errs.append('unfragmented over mtu %d > %d' % (len(cl.sent[0]), mtu))
        return data, mtu, errs + check(data, cl.sent)
    if not sent:
        return data, mtu, ['nothing sent', GLib.ERRORS[:]]
    rp = [b for b in r['blocks'] if b['type'] == 1][0]['data']
    buf = bytearray(len(rp)); cover = 0
    for raw, t in zip(cl.sent, sent):
        if len(raw) > mtu: errs.append('fragment size %d > mtu %d' % (len(raw), mtu))
        for k in ('version', 'destination', 'source', 'report_to', 'create_ts', 'lifetime'):
            if r[k] != t[k]: errs.append('primary %s %r -> %r' % (k, r[k], t[k]))
        if t['flags'] != r['flags'] | 1: errs.append('flags')
        if t.get('total_adu_len') != len(rp): errs.append('total')
        if not t['primary_crc_ok'] or not all(b['crc_ok'] for b in t['blocks']): errs.append('crc')
        p = t['blocks'][-1]
        if p['type'] != 1 or p['num'] != 1: errs.append('payload last')
        off = t['fragment_offset']
        if off != cover: errs.append('offset %d expected %d' % (off, cover))
        buf[off:off+len(p['data'])] = p['data']; cover = off + len(p['data'])
        nums = [b['num'] for b in t['blocks']]
        if len(set(nums)) != len(nums): errs.append('nums')
        for b in r['blocks']:
            if b['type'] in (6,7,10,1): continue
            m = [x for x in t['blocks'] if x['num'] == b['num']]
            if (off == 0 or b['flags'] & 1):
                if len(m) != 1 or any(m[0][k] != b[k] for k in ('type','flags','crc_type','data')): errs.append('block %d missing/changed in frag %d' % (b['num'], off))
            elif m: errs.append('block %d should not be in frag %d' % (b['num'], off))
    if bytes(buf) != rp or cover != len(rp): errs.append('payload reassembly mismatch')
    f0 = sent[0]
    pn = [b for b in f0['blocks'] if b['type'] == 6]
    if len(pn) != 1: errs.append('pn in first frag %d' % len(pn))
    return data, mtu, errs
bad = 0
for seed in range(int(sys.argv[1])):
    data, mtu, errs = run(seed)
    if errs and errs[0] != 'nothing sent':
        bad += 1
        if bad < 6:
            print(seed, mtu, errs); print(indep.show(indep.decode(data)))
print('bad', bad)
