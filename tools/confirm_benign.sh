#!/bin/sh
# usage: confirm_benign.sh <tag> <Cxx> <A|B|C>  -- behaviour-preserving change: demo must exit 0 without and with the patch, pinned suite unchanged
tag=$1; p=$2; v=$3; wt=/tmp/wb$tag/$p; out=/tmp/wb$tag/$p-out; id=$p-b$tag$v
cd $wt || exit 2
git checkout -q -- src 2>/dev/null
[ -f $out/benign_$v.diff ] || { echo "$id MISSING"; exit 0; }
cp $out/*.py $wt/ 2>/dev/null
timeout 900 /venv/bin/python demo_$v.py >/tmp/bseed_$id.clean.log 2>&1; c=$?
git apply $out/benign_$v.diff || { echo "$id APPLY-FAILED"; exit 0; }
timeout 900 /venv/bin/python demo_$v.py >/tmp/bseed_$id.mut.log 2>&1; m=$?
t=$(/venv/bin/python -m pytest -q -p no:cacheprovider --timeout=900 --continue-on-collection-errors 2>&1 | tail -1 | sed 's/=//g')
n=$(git diff --numstat | awk '{a+=$1+$2} END {print a}')
git checkout -q -- src
echo "$id clean=$c patched=$m lines=$n pytest=[$t]"
