#!/usr/bin/env python3
''' Run the quick checks against every seeded change (scratch copy of /repo/src, removed afterwards).
usage: tools/seed_matrix.py [--all-props]   -> prints a table, writes seeded/MATRIX.json '''
import json, os, shutil, subprocess, sys, tempfile, glob
from concurrent.futures import ThreadPoolExecutor
VERIF = os.path.dirname(os.path.dirname(os.path.abspath(__file__)))
PROPS = ['C%02d' % i for i in range(1, 21)]

def run_one(sd):
    meta = json.load(open(os.path.join(sd, 'meta.json')))
    tmp = tempfile.mkdtemp(prefix='seedrun_')
    try:
        shutil.copytree('/repo/src', os.path.join(tmp, 'src'), ignore=shutil.ignore_patterns('__pycache__', '*.egg-info'))
        r = subprocess.run(['git', 'apply', os.path.join(sd, 'patch.diff')], cwd=tmp, capture_output=True, text=True)
        if r.returncode:
            return meta['id'], {'error': 'patch does not apply: ' + r.stderr.strip()[:200]}
        tf = [a.split('=', 1)[1] for a in sys.argv if a.startswith('--transform=')]
        if tf:
            # the seeded change plus a whole-tree behaviour-preserving rewrite (sa/benign.py): must still be caught
            sys.path.insert(0, VERIF)
            from sa import benign
            for dp, _dn, fns in os.walk(os.path.join(tmp, 'src')):
                for fn in fns:
                    if fn.endswith('.py'):
                        fp = os.path.join(dp, fn)
                        text = open(fp).read()
                        for name in tf:
                            text = benign.TRANSFORMS[name](text)
                        open(fp, 'w').write(text)
        props = PROPS if '--all-props' in sys.argv else sorted(set([meta['property']] + meta.get('also_check', [])))
        res = {}
        for p in props:
            env = dict(os.environ, VERIF_REPO=tmp, VERIF_EVIDENCE_DIR=os.path.join(tmp, 'ev'))
            out = subprocess.run([os.path.join(VERIF, 'sa', 'run'), p], cwd=VERIF, env=env, capture_output=True, text=True)
            rules = [l.strip() for l in out.stdout.splitlines() if l.startswith('    rule ')]
            res[p] = {'exit': out.returncode, 'rules': [r_[5:].split(':')[0].split(' at ')[0] + ' @ ' + r_.split(' in ')[1].split(':')[0] for r_ in rules][:6]}
        return meta['id'], res
    finally:
        shutil.rmtree(tmp, ignore_errors=True)

def main():
    only = [a.split('=', 1)[1] for a in sys.argv if a.startswith('--only=')]
    seeds = sorted(glob.glob(os.path.join(VERIF, 'seeded', only[0] if only else '*', 'meta.json')))
    with ThreadPoolExecutor(max_workers=12) as ex:
        results = dict(ex.map(run_one, [os.path.dirname(s) for s in seeds]))
    missed = []
    for sid in sorted(results):
        res = results[sid]
        if 'error' in res:
            print(sid, 'ERROR', res['error']); continue
        caught = {p: v for p, v in res.items() if v['exit'] == 1}
        own = sid[:3]
        meta = json.load(open(os.path.join(VERIF, 'seeded', sid, 'meta.json')))
        if meta.get('status') == 'open':
            print('{}: OPEN (confirmed harmful, recorded as not reported) -> {}'.format(sid, 'now reported by ' + str(sorted(caught)) if caught else 'still not reported by any check' if all(v['exit'] == 0 for v in res.values()) else 'own check exit ' + str(res[own]['exit'])))
            continue
        if meta.get('status') == 'retired':
            print('{}: retired (no longer demonstrated on the repaired tree) -> checker {}'.format(sid, 'reports ' + str(sorted(caught)) if caught else 'silent'))
            continue
        if meta.get('status') == 'withheld':
            e2 = own in {p for p, v in res.items() if v['exit'] == 2}
            print('{}: withheld by the shape gate (change of 11+ statements) -> own check {}'.format(sid, 'INCONCLUSIVE, exit 2 (as recorded)' if e2 and own not in caught else ('reports it' if own in caught else 'SILENT (miss!)')))
            if own not in caught and not e2:
                missed.append(sid)
            continue
        if meta.get('status') == 'neutralised':
            print('{}: neutralised by fix {} (demo passes on the repaired tree) -> checker {}'.format(sid, meta['neutralised_by'], 'SILENT (correct)' if not caught else 'ALARMS (false alarm!) ' + str(sorted(caught))))
            continue
        line = '{}: {}'.format(sid, '; '.join('{} [{}]'.format(p, ', '.join(v['rules'])) for p, v in sorted(caught.items())) or 'NOT DETECTED ' + str({p: v['exit'] for p, v in res.items()}))
        print(line[:300])
        if own not in caught:
            missed.append(sid)
    if '--all-props' in sys.argv and not any(a.startswith('--transform=') or a.startswith('--only=') for a in sys.argv):
        json.dump(results, open(os.path.join(VERIF, 'seeded', 'MATRIX.json'), 'w'), indent=1, sort_keys=True)
    print('missed by own property check:', missed)
    return 0

if __name__ == '__main__':
    sys.exit(main())
