#!/usr/bin/env python3
''' usage: make_seed_prompts.py <round-number>   -- writes /tmp/wt<N>/PROMPT_Cxx.md for a seeding round (the text a fresh
sub-agent gets: the property, the task, the titles of the changes already collected; nothing from /verif) '''
import json, glob, os, re, sys
rnd = sys.argv[1]
root = '/tmp/wt%s' % rnd
os.makedirs(root, exist_ok=True)
props = {}
for l in open('/verif/properties.jsonl'):
    d = json.loads(l)
    props[d['id']] = d
for pid, d in props.items():
    used = []
    for sd in sorted(glob.glob('/verif/seeded/%s-*' % pid)):
        p = os.path.join(sd, 'NOTES.md')
        if os.path.exists(p):
            for line in open(p):
                if line.startswith('#'):
                    used.append(re.sub(r'^#+\s*', '', line.strip())[:170])
                    break
    txt = '''You are helping to evaluate a verification tool for the Python project dtn-demo-agent (DTN protocol demo agents: TCPCLv4, UDPCL, BTP-U, BPv7, BPSec/COSE). Your own scratch git worktree of the project is at %(root)s/%(pid)s; work only there (and in %(root)s/%(pid)s-out for your deliverables, create it). Do not read or write /verif or /repo. There is no network.

THE PROPERTY (%(pid)s): %(title)s

%(statement)s

It is meant to hold: %(quant)s

YOUR TASK: produce THREE different changes to the source (call them A, B, C), each of which
  1. BREAKS the property above (some clause of it) - a realistic mistake a maintainer could make (a refactoring slip, an "optimisation", a wrong boundary, a dropped or misplaced guard, a state update in the wrong place, a wrong key or index, an exception path, a helper extracted or inlined slightly wrongly, a default changed, a value normalised or cached where it must not be), not sabotage and not a comment/no-op;
  2. still compiles, and the pinned test suite still passes exactly as before:   cd %(root)s/%(pid)s && /venv/bin/python -m pytest -q -p no:cacheprovider --continue-on-collection-errors   must print "59 passed, 10 errors" (the 10 collection errors are the baseline: dbus, gi etc. are not installed);
  3. needs something SPECIFIC to manifest - a particular input, size, ordering, interleaving, configuration or history - so that ordinary use would not show it;
  4. comes with a DEMONSTRATION: a script demo_X.py (X = A, B, C), run from the worktree root as  /venv/bin/python demo_X.py , that drives the REAL code of the worktree (not a re-implementation) into the situation and exits 0 when the property holds and 1 when it is violated, printing what was expected and observed. It must exit 0 on the unmodified worktree and 1 with your change applied.
The three changes must use different mechanisms in different functions. At least TWO of the three should be made OUTSIDE the function that most obviously implements the property: in a helper, a shared utility or encoding class, configuration loading, a base class, an adaptor between components, or a caller / callee one or two steps away - wherever the property silently depends on something. Changes already collected for this property (find DIFFERENT ones, in other functions and of another kind):
%(used)s

PRACTICALITIES
 - The libraries dbus, gi (GLib), crcmod, portion, yaml, certvalidator, macaddress, psutil are NOT installed; scapy, cbor2, pycose (cose), cryptography are. To run the real modules your demo has to put small stand-ins for the missing libraries into sys.modules before importing the project (e.g. a dbus.service.Object base with signal/method decorators that record emissions, dbus types such as UInt64/Boolean as int/bool subclasses, a GLib stand-in whose io/idle/timeout sources you crank by hand, crcmod.predefined.mkPredefinedCrcFun for 'x-25' and 'crc-32c', a minimal portion interval set). Put them in one module demo_stubs.py shared by your three demos. Keep them minimal but faithful (a stub must not be the reason a demo fails or passes).
 - The worktree HEAD already contains many recent repairs (git log); your changes are relative to this HEAD.
 - Make each change with an editor, save it as a patch with  git diff > %(root)s/%(pid)s-out/variant_X.diff , and undo it with  git checkout -- src  before the next one. Never use git stash (it is shared between worktrees). Leave the worktree unmodified at the end (apart from untracked demo files).
 - Verify each variant yourself: demo exits 0 on the clean tree, 1 with the patch (git apply variant_X.diff / git apply -R), and the pinned suite still prints 59 passed, 10 errors with the patch.

DELIVER in %(root)s/%(pid)s-out/: variant_A.diff, variant_B.diff, variant_C.diff, demo_A.py, demo_B.py, demo_C.py, demo_stubs.py (and any shared helper module), and NOTES.md with, per variant, a heading line "## Variant X - <function changed>: <one-line title>" followed by: the clause broken, the mechanism (what the edit does and why it looks innocent), what is needed for it to manifest, and the commands you ran with their observed results (clean exit code, patched exit code, pytest summary). Your final message: three lines, one per variant, with the function changed and whether you verified it.
''' % dict(root=root, pid=pid, title=d['title'], statement=d['statement'], quant=d['quantifier']['text'], used='\n'.join('   - ' + u for u in used) or '   (none)')
    open('%s/PROMPT_%s.md' % (root, pid), 'w').write(txt)
print('written', len(props), 'prompts below', root)
