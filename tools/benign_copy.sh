#!/bin/sh
# usage: tools/benign_copy.sh <transform> <dir>  -- scratch copy of /repo with one sa/benign.py transform applied (remove it afterwards)
rm -rf "$2"; mkdir -p "$2"; cp -r /repo/src "$2/src"; find "$2" -name __pycache__ -prune -exec rm -rf {} +
cd /verif && /venv/bin/python - "$1" "$2" <<'PY'
import sys, os
sys.path.insert(0, '/verif')
from sa import benign
for dp, dn, fns in os.walk(os.path.join(sys.argv[2], 'src')):
    for fn in fns:
        if fn.endswith('.py'):
            p = os.path.join(dp, fn); s = open(p).read(); open(p, 'w').write(benign.TRANSFORMS[sys.argv[1]](s))
PY
