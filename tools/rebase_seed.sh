#!/bin/sh
# usage: tools/rebase_seed.sh <seed-id> <base-commit>   -- 3-way rebase of seeded/<id>/patch.diff from <base-commit> onto /repo HEAD
id=$1; base=$2; sd=/verif/seeded/$id; tmp=$(mktemp -d)
mkdir -p $tmp/base $tmp/cur
git -C /repo archive $base src | tar -x -C $tmp/base
git -C /repo archive HEAD src | tar -x -C $tmp/cur
cp -r $tmp/base $tmp/mut
(cd $tmp/mut && git apply $sd/patch.diff) || { echo "$id: patch does not apply to $base"; rm -rf $tmp; exit 2; }
rc=0
for f in $(grep '^+++ b/' $sd/patch.diff | sed 's#^+++ b/##' | cut -f1); do
  git merge-file $tmp/cur/$f $tmp/base/$f $tmp/mut/$f || { echo "$id: conflict in $f"; rc=1; }
done
if [ $rc = 0 ]; then
  [ -f $sd/patch.orig.diff ] || cp $sd/patch.diff $sd/patch.orig.diff
  mkdir -p $tmp/head; git -C /repo archive HEAD src | tar -x -C $tmp/head
  (cd $tmp && diff -ruN head/src cur/src | sed 's#^--- head/#--- a/#; s#^+++ cur/#+++ b/#; /^diff -ruN/d' > $sd/patch.diff)
  echo "$id: rebased ($(grep -c '^@@' $sd/patch.diff) hunks)"
fi
rm -rf $tmp; exit $rc
