#!/bin/sh
# usage: tools/round6_process.sh Cxx   -- confirm the three round-6 changes of a property, import the confirmed ones, run the own check
p=$1
for v in A B C; do
  r=$(tools/confirm_seed6.sh $p $v); echo "$r"
  case "$r" in *"clean=0 mutated=1 pytest=[ 59 passed, 10 errors"*) python3 tools/import_seed6.py $p $v >/dev/null; tools/try_patch.sh /verif/seeded/$p-r6$v/patch.diff $p;; *) echo "  NOT CONFIRMED";; esac
done
