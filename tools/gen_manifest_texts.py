#!/usr/bin/env python3
''' Keep MANIFEST.json level_claimed.text in step with the obligations actually implemented (from evidence/*.json);
the "does NOT decide" part of each text is kept as written. Validates against the schema afterwards. '''
import json, os, subprocess, sys
VERIF = os.path.dirname(os.path.dirname(os.path.abspath(__file__)))
mp = os.path.join(VERIF, 'MANIFEST.json')
m = json.load(open(mp))
for c in m['checks']:
    pid = c['property_id']
    ev = json.load(open(os.path.join(VERIF, 'evidence', pid + '.json')))
    obs = ['{} {}'.format(s['obligation'], s['text']) for s in ev['coverage']['samples']]
    text = c['level_claimed']['text']
    cut = text.find('It does NOT decide')
    rest = text[cut:] if cut >= 0 else ''
    c['level_claimed']['text'] = 'Decides structural necessary conditions of {} from /repo/src on every run (nothing executed), one obligation each: {}. '.format(pid, '; '.join(obs)) + rest
    c['level_claimed']['design_ref'] = 'DESIGN.md section 4 ({}), section 10 and Appendix C'.format(pid)
m['notes'] = ("All 20 properties are claimed at level 'other' for their structural clauses only; the undecided behavioural clauses are listed per property in DESIGN.md section 8 and in each "
              "level_claimed.text. Genuine defects of the pinned tree found by the checks were repaired by 'fix:' commits in /repo and are recorded as 'fixed:' lines in KNOWN_FINDINGS.txt; known findings still open are its 'known:' lines (printed as KNOWN-FINDING by the checks).")
json.dump(m, open(mp, 'w'), indent=1)
print('updated', len(m['checks']), 'checks')
