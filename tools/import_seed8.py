#!/usr/bin/env python3
''' usage: import_seed3.py Cxx A|B|C  -- copy a confirmed round-3 change into /verif/seeded/Cxx-r5X '''
import json, os, shutil, sys, glob, subprocess
p, v = sys.argv[1], sys.argv[2]
out = '/tmp/wt8/%s-out' % p
sd = '/verif/seeded/%s-r8%s' % (p, v)
os.makedirs(sd, exist_ok=True)
shutil.copy(os.path.join(out, 'variant_%s.diff' % v), os.path.join(sd, 'patch.diff'))
shutil.copy(os.path.join(out, 'demo_%s.py' % v), os.path.join(sd, 'demo.py'))
for f in glob.glob(os.path.join(out, '*.py')):
    b = os.path.basename(f)
    if b not in ('demo_A.py', 'demo_B.py', 'demo_C.py'):
        shutil.copy(f, os.path.join(sd, b))
if os.path.exists(os.path.join(out, 'NOTES.md')):
    shutil.copy(os.path.join(out, 'NOTES.md'), os.path.join(sd, 'NOTES_all.md'))
    # first heading of this variant
    txt = open(os.path.join(out, 'NOTES.md')).read()
    import re
    parts = re.split(r'(?m)^(?=#+ .*\b(?:[Vv]ariant|VARIANT)\s+%s\b)' % v, txt)
    note = parts[1] if len(parts) > 1 else txt
    nxt = re.search(r'(?m)^#+ .*\b(?:[Vv]ariant|VARIANT)\s+[ABC]\b', note[5:])
    if nxt:
        note = note[:nxt.start() + 5]
    open(os.path.join(sd, 'NOTES.md'), 'w').write(note)
files = sorted(set(l[6:].strip().split('\t')[0] for l in open(os.path.join(sd, 'patch.diff')) if l.startswith('+++ b/')))
head = subprocess.run(['git', '-C', '/repo', 'rev-parse', '--short', 'HEAD'], capture_output=True, text=True).stdout.strip()
meta = {
    'id': '%s-r8%s' % (p, v), 'property': p, 'round': 8, 'files': files, 'base_commit': head + ' (repaired tree after the audit)',
    'needs_to_manifest': 'see NOTES.md (written by the seeding sub-agent)',
    'origin': 'fresh sub-agent given only the property text (statement + quantifier), a scratch worktree of the repaired tree and the one-line titles of the changes already collected for the property; nothing from /verif',
    'confirmed': {'by': 'tools/confirm_seed8.sh in the scratch worktree', 'demo_on_clean_tree': 'exit 0', 'demo_with_patch': 'exit 1', 'pinned_tests_with_patch': '59 passed, 10 collection errors (= baseline)'},
    'how_to_run': 'git -C /repo apply seeded/%s-r8%s/patch.diff; sa/run %s; git -C /repo checkout -- .' % (p, v, p),
}
json.dump(meta, open(os.path.join(sd, 'meta.json'), 'w'), indent=1)
print('imported', sd)
