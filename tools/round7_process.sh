#!/bin/sh
# usage: tools/round7_process.sh Cxx   -- confirm the three round-7 changes of a property and run the own check on each (no import: tools/import_seed7.py once decided)
p=$1
for v in A B C; do
  r=$(tools/confirm_seed7.sh $p $v); echo "$r"
  case "$r" in *"clean=0 mutated=1 pytest=[ 59 passed, 10 errors"*) tools/try_patch.sh /tmp/wt7/$p-out/variant_$v.diff $p;; *) echo "  NOT CONFIRMED";; esac
done
