#!/usr/bin/env python3
''' Apply each whole-tree behaviour-preserving transform of sa/benign.py to a scratch copy of /repo and run all 20 quick
checks on it; a check whose outcome differs from the unedited tree is a false alarm (or an analysis error) to correct.
usage: tools/benign_matrix.py [--pytest] [transform ...]
  --pytest   also run the pinned test suite in the scratch copy (validates that the transform preserves behaviour) '''
import os, shutil, subprocess, sys, tempfile
from concurrent.futures import ThreadPoolExecutor
VERIF = os.path.dirname(os.path.dirname(os.path.abspath(__file__)))
sys.path.insert(0, VERIF)
from sa import benign  # noqa: E402
PROPS = ['C%02d' % i for i in range(1, 21)]


def run_checks(root):
    def one(p):
        env = dict(os.environ, VERIF_REPO=root, VERIF_EVIDENCE_DIR=os.path.join(root, '.ev'))
        out = subprocess.run([os.path.join(VERIF, 'sa', 'run'), p], cwd=VERIF, env=env, capture_output=True, text=True)
        lines = [l.strip() for l in out.stdout.splitlines() if l.startswith('    rule ') or 'ANALYSIS-ERROR' in l]
        return p, out.returncode, lines
    with ThreadPoolExecutor(max_workers=10) as ex:
        return list(ex.map(one, PROPS))


def main():
    args = [a for a in sys.argv[1:] if not a.startswith('--')]
    names = args or list(benign.TRANSFORMS)
    bad = 0
    for name in names:
        tmp = tempfile.mkdtemp(prefix='benign_')
        try:
            root = os.path.join(tmp, 'repo')
            shutil.copytree('/repo', root, ignore=shutil.ignore_patterns('.git', '__pycache__', '*.egg-info', '.pytest_cache'))
            n = 0
            for dp, _dn, fns in os.walk(os.path.join(root, 'src')):
                for fn in fns:
                    if fn.endswith('.py'):
                        p = os.path.join(dp, fn)
                        src = open(p).read()
                        open(p, 'w').write(benign.TRANSFORMS[name](src))
                        n += 1
            print('== {}: {} modules rewritten'.format(name, n))
            if '--pytest' in sys.argv:
                r = subprocess.run(['/venv/bin/python', '-m', 'pytest', '-q', '-p', 'no:cacheprovider', '--continue-on-collection-errors', '--no-header'], cwd=root,
                                   capture_output=True, text=True, env=dict(os.environ, PYTHONPATH=os.path.join(root, 'src')))
                print('   pytest:', r.stdout.strip().splitlines()[-1] if r.stdout.strip() else r.stderr[-300:])
            for p, rc, lines in run_checks(root):
                if rc != 0:
                    bad += 1
                    print('   {} exit={}'.format(p, rc))
                    for l in lines[:8]:
                        print('      ' + l[:260])
        finally:
            shutil.rmtree(tmp, ignore_errors=True)
    print('differences:', bad)
    return 1 if bad else 0


if __name__ == '__main__':
    sys.exit(main())
