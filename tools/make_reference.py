#!/usr/bin/env python3
''' Write sa/reference_locals.json (spelling of function-local variables, per function, see sa/canon.py) from the
current /repo tree.  Run after a fix: commit in /repo; never run by a check. '''
import json, os, sys
VERIF = os.path.dirname(os.path.dirname(os.path.abspath(__file__)))
sys.path.insert(0, VERIF)
os.environ['VERIF_NO_CANON'] = '1'
from sa import canon  # noqa: E402
from sa.core import Tree  # noqa: E402
tree = Tree()
canon.normalise_calls({rel: mod.tree for rel, mod in tree.modules.items()})
ref = {}
for rel, mod in sorted(tree.modules.items()):
    canon.normalise_module(mod.tree)
    r = canon.reference_of(mod.tree)
    if r:
        ref[rel] = r
json.dump(ref, open(canon.REF_PATH, 'w'), indent=0, sort_keys=True)
# every function of the reference tree, by module: a function that is not listed is a new helper (sa/inline.py)
from sa import inline  # noqa: E402
funcs = {rel: sorted(q for (q, f, body, cls) in inline._functions_with_qual(mod.tree)) for rel, mod in sorted(tree.modules.items())}
json.dump(funcs, open(os.path.join(VERIF, 'sa', 'reference_functions.json'), 'w'), indent=0, sort_keys=True)
# the statements of every function in canonical form: the shape the rules were confirmed on (sa/report.py measures how far a
# function of the analysed tree has moved away from it before it lets an "expected construct not found" count as a violation)
del os.environ['VERIF_NO_CANON']
from sa.core import function_statements  # noqa: E402
ctree = Tree()
shapes = {}
for rel, mod in sorted(ctree.modules.items()):
    shapes[rel] = {q: function_statements(f) for (r_, q, f) in ctree.all_functions([rel])}
json.dump(shapes, open(os.path.join(VERIF, 'sa', 'reference_shapes.json'), 'w'), indent=0, sort_keys=True)
print('shapes written:', sum(len(v) for v in shapes.values()), 'functions,', os.path.getsize(os.path.join(VERIF, 'sa', 'reference_shapes.json')), 'bytes')
print('reference written:', sum(len(v) for v in ref.values()), 'functions in', len(ref), 'modules,', os.path.getsize(canon.REF_PATH), 'bytes')
