#!/usr/bin/env python3
''' Write sa/reference_locals.json (spelling of function-local variables, per function, see sa/canon.py) from the
current /repo tree.  Run after a fix: commit in /repo; never run by a check. '''
import json, os, sys
VERIF = os.path.dirname(os.path.dirname(os.path.abspath(__file__)))
sys.path.insert(0, VERIF)
os.environ['VERIF_NO_CANON'] = '1'
from sa import canon  # noqa: E402
from sa.core import Tree  # noqa: E402
tree = Tree()
canon.normalise_calls({rel: mod.tree for rel, mod in tree.modules.items()})
ref = {}
for rel, mod in sorted(tree.modules.items()):
    canon.normalise_module(mod.tree)
    r = canon.reference_of(mod.tree)
    if r:
        ref[rel] = r
json.dump(ref, open(canon.REF_PATH, 'w'), indent=0, sort_keys=True)
print('reference written:', sum(len(v) for v in ref.values()), 'functions in', len(ref), 'modules,', os.path.getsize(canon.REF_PATH), 'bytes')
