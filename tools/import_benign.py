#!/usr/bin/env python3
''' usage: import_benign.py <tag> Cxx A|B|C  -- copy a confirmed behaviour-preserving change into /verif/benign_seeded/Cxx-b<tag>X '''
import json, os, shutil, sys, glob, subprocess, re
tag, p, v = sys.argv[1], sys.argv[2], sys.argv[3]
out = '/tmp/wb%s/%s-out' % (tag, p)
sd = '/verif/benign_seeded/%s-b%s%s' % (p, tag, v)
os.makedirs(sd, exist_ok=True)
shutil.copy(os.path.join(out, 'benign_%s.diff' % v), os.path.join(sd, 'patch.diff'))
shutil.copy(os.path.join(out, 'demo_%s.py' % v), os.path.join(sd, 'demo.py'))
for f in glob.glob(os.path.join(out, '*.py')):
    b = os.path.basename(f)
    if b not in ('demo_A.py', 'demo_B.py', 'demo_C.py'):
        shutil.copy(f, os.path.join(sd, b))
note = ''
if os.path.exists(os.path.join(out, 'NOTES.md')):
    txt = open(os.path.join(out, 'NOTES.md')).read()
    parts = re.split(r'(?m)^(?=#+ .*\b(?:[Cc]hange|CHANGE)\s+%s\b)' % v, txt)
    note = parts[1] if len(parts) > 1 else txt
    nxt = re.search(r'(?m)^#+ .*\b(?:[Cc]hange|CHANGE)\s+[ABC]\b', note[5:])
    if nxt:
        note = note[:nxt.start() + 5]
    open(os.path.join(sd, 'NOTES.md'), 'w').write(note)
files = sorted(set(l[6:].strip().split('\t')[0] for l in open(os.path.join(sd, 'patch.diff')) if l.startswith('+++ b/')))
head = subprocess.run(['git', '-C', '/repo', 'rev-parse', '--short', 'HEAD'], capture_output=True, text=True).stdout.strip()
title = (note.splitlines() or [''])[0].lstrip('# ').strip()
meta = {
    'id': '%s-b%s%s' % (p, tag, v), 'written_for': p, 'kind': 'behaviour-preserving', 'title': title, 'files': files, 'base_commit': head,
    'origin': 'fresh sub-agent given only the property text and a scratch worktree; asked for a realistic maintenance change that keeps the property (nothing from /verif)',
    'confirmed': {'by': 'tools/confirm_benign.sh', 'demo_on_clean_tree': 'exit 0', 'demo_with_patch': 'exit 0', 'pinned_tests_with_patch': '59 passed, 10 collection errors (= baseline)'},
    'expected': 'every property check stays silent (same finding keys as on the unchanged tree, no analysis error)',
}
json.dump(meta, open(os.path.join(sd, 'meta.json'), 'w'), indent=1)
print('imported', sd)
