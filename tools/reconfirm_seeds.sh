#!/bin/bash
# Re-confirm every seeded change against the CURRENT /repo HEAD in scratch worktrees (removed afterwards).
# prints: <id> apply=<ok|fuzz|FAIL> clean=<rc> mutated=<rc> pytest=<n passed>
one() {
  sd=$1; id=$(basename $sd); wt=/tmp/reseed_$id
  git -C /repo worktree add -q --detach $wt HEAD 2>/dev/null || { echo "$id WORKTREE-FAILED"; return; }
  cp $sd/*.py $wt/
  cd $wt
  /venv/bin/python demo.py >/tmp/reseed_$id.clean.log 2>&1; c=$?
  ap=ok
  if ! git apply $sd/patch.diff 2>/dev/null; then
    if patch -p1 -s --fuzz=3 --no-backup-if-mismatch < $sd/patch.diff >/dev/null 2>&1; then ap=fuzz; git diff > /tmp/reseed_$id.rebased.diff; else ap=FAIL; fi
  fi
  if [ $ap != FAIL ]; then
    /venv/bin/python demo.py >/tmp/reseed_$id.mut.log 2>&1; m=$?
    p=$(/venv/bin/python -m pytest -q -p no:cacheprovider --timeout=900 --continue-on-collection-errors 2>&1 | tail -1 | sed 's/=//g')
  else m=-; p=-; fi
  cd /; git -C /repo worktree remove --force $wt
  echo "$id apply=$ap clean=$c mutated=$m pytest=[$p]"
}
if [ -n "$1" ]; then for id in "$@"; do one /verif/seeded/$id; done; exit 0; fi
n=0
for sd in /verif/seeded/C*; do
  one $sd &
  n=$((n+1)); if [ $n -ge 12 ]; then wait -n; n=$((n-1)); fi
done; wait
