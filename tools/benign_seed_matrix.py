#!/usr/bin/env python3
''' Run all 20 quick checks against every confirmed behaviour-preserving change (benign_seeded/*): each must exit 0.
usage: tools/benign_seed_matrix.py [--only=GLOB]   -> writes benign_seeded/MATRIX.json when run over everything '''
import json, os, shutil, subprocess, sys, tempfile, glob
from concurrent.futures import ThreadPoolExecutor
VERIF = os.path.dirname(os.path.dirname(os.path.abspath(__file__)))
PROPS = ['C%02d' % i for i in range(1, 21)]

def run_one(sd):
    tmp = tempfile.mkdtemp(prefix='bseedrun_')
    try:
        shutil.copytree('/repo/src', os.path.join(tmp, 'src'), ignore=shutil.ignore_patterns('__pycache__', '*.egg-info'))
        r = subprocess.run(['git', 'apply', os.path.join(sd, 'patch.diff')], cwd=tmp, capture_output=True, text=True)
        if r.returncode:
            return os.path.basename(sd), {'error': 'patch does not apply: ' + r.stderr.strip()[:200]}
        res = {}
        for p in PROPS:
            env = dict(os.environ, VERIF_REPO=tmp, VERIF_EVIDENCE_DIR=os.path.join(tmp, 'ev'))
            out = subprocess.run([os.path.join(VERIF, 'sa', 'run'), p], cwd=VERIF, env=env, capture_output=True, text=True)
            msgs = [l.strip()[:260] for l in out.stdout.splitlines() if l.startswith('    rule ') or 'ANALYSIS-ERROR' in l]
            res[p] = {'exit': out.returncode, 'messages': msgs[:4]}
        return os.path.basename(sd), res
    finally:
        shutil.rmtree(tmp, ignore_errors=True)

def main():
    only = [a.split('=', 1)[1] for a in sys.argv if a.startswith('--only=')]
    seeds = sorted(d for d in glob.glob(os.path.join(VERIF, 'benign_seeded', only[0] if only else 'C*')) if os.path.isdir(d))
    with ThreadPoolExecutor(max_workers=12) as ex:
        results = dict(ex.map(run_one, seeds))
    alarms, giveups = [], []
    for sid in sorted(results):
        res = results[sid]
        if 'error' in res:
            print(sid, 'ERROR', res['error']); continue
        bad = {p: v for p, v in res.items() if v['exit'] != 0}
        if not bad:
            print('{}: silent (20 checks)'.format(sid)); continue
        for p, v in sorted(bad.items()):
            print('{}: {} exit={} {}'.format(sid, p, v['exit'], ' | '.join(v['messages'])[:300]))
            (alarms if v['exit'] == 1 else giveups).append((sid, p))
    if not only:
        json.dump(results, open(os.path.join(VERIF, 'benign_seeded', 'MATRIX.json'), 'w'), indent=1, sort_keys=True)
    print('false alarms:', alarms)
    print('analysis gave up:', giveups)

if __name__ == '__main__':
    sys.exit(main())
