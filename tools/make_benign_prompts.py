#!/usr/bin/env python3
''' usage: make_benign_prompts.py <tag>   -- writes /tmp/wb<tag>/PROMPT_Cxx.md: the brief for a sub-agent that makes
BEHAVIOUR-PRESERVING changes (the checker must stay silent on them).  Property text only, nothing from /verif. '''
import json, os, sys
tag = sys.argv[1]
root = '/tmp/wb%s' % tag
os.makedirs(root, exist_ok=True)
for l in open('/verif/properties.jsonl'):
    d = json.loads(l)
    pid = d['id']
    files = ', '.join(d['anchors']['files'])
    txt = '''You are helping to evaluate a verification tool for the Python project dtn-demo-agent (DTN protocol demo agents: TCPCLv4, UDPCL, BTP-U, BPv7, BPSec/COSE). Your own scratch git worktree of the project is at %(root)s/%(pid)s; work only there (and in %(root)s/%(pid)s-out for your deliverables, create it). Do not read or write /verif or /repo. There is no network.

THE PROPERTY (%(pid)s): %(title)s

%(statement)s

It is meant to hold: %(quant)s

The code that implements it is mainly in: %(files)s (and what those call).

YOUR TASK: produce THREE different changes to that code (call them A, B, C) of the kind a maintainer makes every week and which KEEP the property intact - the tool under evaluation must not raise an alarm on them. Each change
  1. is a real, non-trivial edit of the code that implements or supports the property (not comments, not whitespace, not a rename only): for example restructure a function (early returns <-> nested ifs, split a long function into helpers, inline a small helper, merge two branches), replace an idiom by an equivalent one (loop <-> comprehension, dict.get <-> membership test, tuple swap, f-string), reorder statements that are independent, add an orthogonal feature or diagnostic (a counter, a log line, a statistics attribute, a new optional D-Bus method), tighten typing, hoist or rename locals and private helpers, move a constant to a class attribute, make a derived value a property ...;
  2. PRESERVES the behaviour the property talks about for every input: argue why, and take care with the corner cases the property quantifies over;
  3. still compiles and the pinned test suite passes as before:   cd %(root)s/%(pid)s && /venv/bin/python -m pytest -q -p no:cacheprovider --continue-on-collection-errors   must print "59 passed, 10 errors" (the 10 collection errors are the baseline: dbus, gi etc. are not installed);
  4. comes with a DEMONSTRATION demo_X.py (X = A, B, C), run from the worktree root as  /venv/bin/python demo_X.py , that drives the REAL code through the situations the property is about (including the awkward ones: boundaries, interleavings, malformed input as appropriate) and exits 0 when the property holds, 1 when it is violated. It must exit 0 on the unmodified worktree AND with your change applied.
Make the three changes different in kind and, where possible, in different functions; aim for changes that LOOK risky to a pattern-matching checker (they touch the guards, loops, state updates and calls the property depends on) while being correct. Small to medium-sized is best: 5-40 changed lines each.

PRACTICALITIES
 - The libraries dbus, gi (GLib), crcmod, portion, yaml, certvalidator, macaddress, psutil are NOT installed; scapy, cbor2, pycose (cose), cryptography are. To run the real modules your demo has to put small stand-ins for the missing libraries into sys.modules before importing the project (a dbus.service.Object base with signal/method decorators that record emissions, dbus types such as UInt64/Boolean as int/bool subclasses, a GLib stand-in whose io/idle/timeout sources you crank by hand, crcmod.predefined.mkPredefinedCrcFun for 'x-25' and 'crc-32c', a minimal portion interval set). Put them in one module demo_stubs.py shared by your three demos.
 - Make each change with an editor, save it with  git diff > %(root)s/%(pid)s-out/benign_X.diff , and undo it with  git checkout -- src  before the next one. Never use git stash. Leave the worktree unmodified at the end (apart from untracked demo files).
 - Verify each: demo exits 0 on the clean tree and 0 with the patch; the pinned suite prints 59 passed, 10 errors with the patch.

DELIVER in %(root)s/%(pid)s-out/: benign_A.diff, benign_B.diff, benign_C.diff, demo_A.py, demo_B.py, demo_C.py, demo_stubs.py (and any shared helper module), and NOTES.md with, per change, a heading "## Change X - <function(s) changed>: <one-line title>", what was changed, and the argument why the property is untouched. Your final message: three lines, one per change.
''' % dict(root=root, pid=pid, title=d['title'], statement=d['statement'], quant=d['quantifier']['text'], files=files)
    open('%s/PROMPT_%s.md' % (root, pid), 'w').write(txt)
print('written prompts below', root)
