#!/bin/sh
# usage: tools/try_patch.sh <patch.diff> <Cxx> [...]  -- run quick checks against a scratch copy of /repo/src with the patch applied (nothing is written to /repo)
pt=$1; shift
tmp=$(mktemp -d /tmp/sa_try_XXXXXX)
cp -r /repo/src $tmp/src; find $tmp -name __pycache__ -prune -exec rm -rf {} + 2>/dev/null
(cd $tmp && git apply "$pt") || { echo "APPLY FAILED $pt"; rm -rf $tmp; exit 2; }
cd /verif
for p in "$@"; do
  VERIF_REPO=$tmp VERIF_EVIDENCE_DIR=$tmp/ev sa/run "$p" > $tmp/out_$p.txt 2>&1; rc=$?
  echo "$(basename $(dirname $pt))/$(basename $pt) $p exit=$rc"; grep -E "^    rule|ANALYSIS-ERROR" $tmp/out_$p.txt | head -6 | cut -c1-330
done
rm -rf $tmp
