#!/bin/sh
# usage: tools/try_patch.sh <patch.diff> <Cxx> [<Cyy>...]  -- apply to /repo, run quick checks, undo
patch=$1; shift
cd /verif || exit 2
git -C /repo apply "$patch" || { echo "APPLY FAILED"; exit 2; }
for p in "$@"; do
  VERIF_EVIDENCE_DIR=/tmp/try_ev sa/run "$p" > /tmp/try_$p.out 2>&1; rc=$?
  echo "$p exit=$rc"; grep -E "^VIOLATION|^    rule|ANALYSIS-ERROR" /tmp/try_$p.out | head -40
done
git -C /repo checkout -- .
