#!/bin/sh
# usage: confirm_seed2.sh <worktree> <A|B|C>
wt=$1; v=$2; id=$(basename $wt)$v
cd $wt || exit 2
git checkout -q -- src 2>/dev/null
[ -f variant_$v.diff ] || { echo "$id MISSING"; exit 0; }
timeout 300 /venv/bin/python demo_$v.py >/tmp/seed2_$id.clean.log 2>&1; c=$?
git apply variant_$v.diff || { echo "$id APPLY-FAILED"; exit 0; }
timeout 300 /venv/bin/python demo_$v.py >/tmp/seed2_$id.mut.log 2>&1; m=$?
p=$(/venv/bin/python -m pytest -q -p no:cacheprovider --timeout=900 --continue-on-collection-errors 2>&1 | tail -1 | sed 's/=//g')
git checkout -q -- src
echo "$id clean=$c mutated=$m pytest=[$p]"
