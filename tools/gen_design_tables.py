#!/usr/bin/env python3
''' Regenerate the two generated appendices of DESIGN.md from what the machinery itself wrote:
  Appendix C (obligations as built)  <- evidence/Cxx.json of the last quick run
  Appendix D (which check catches which seeded change) <- seeded/MATRIX.json (tools/seed_matrix.py --all-props) + seeded/*/NOTES.md
usage: tools/gen_design_tables.py     (rewrites the text between the BEGIN/END markers in DESIGN.md) '''
import glob, json, os, re
VERIF = os.path.dirname(os.path.dirname(os.path.abspath(__file__)))


def obligations():
    out = ['| obligation | rule | sites | verdict on the repaired tree | what is checked |', '|---|---|---|---|---|']
    for f in sorted(glob.glob(os.path.join(VERIF, 'evidence', 'C??.json'))):
        d = json.load(open(f))
        for s in d['coverage']['samples']:
            verdict = s['verdict'] + (' ({} known)'.format(len([x for x in s['findings'] if x.get('known')])) if any(x.get('known') for x in s['findings']) else '')
            out.append('| {} | {} | {} | {} | {} |'.format(s['obligation'], s['rule'], s['n_instances'], verdict, s['text'].replace('|', '\\|')))
    return '\n'.join(out)


def summary(sd):
    p = os.path.join(sd, 'NOTES.md')
    if not os.path.exists(p):
        return ''
    for line in open(p):
        line = line.strip()
        if line.startswith('#'):
            line = re.sub(r'^#+\s*', '', line)
            line = re.sub(r'^(Variant|Change|Mutant)\s+\w+\s*(\([^)]*\))?\s*[-:–—]*\s*', '', line)
            return line.replace('|', '/')[:160]
    return ''


def seeds():
    m = json.load(open(os.path.join(VERIF, 'seeded', 'MATRIX.json')))
    out = ['| seed | change (first line of its NOTES.md) | caught by its own property | also reported by |', '|---|---|---|---|']
    n = caught = neutral = retired = 0
    for sid in sorted(m):
        sd = os.path.join(VERIF, 'seeded', sid)
        meta = json.load(open(os.path.join(sd, 'meta.json')))
        own = meta['property']
        res = m[sid]
        n += 1

        def fmt(p):
            v = res.get(p) or {}
            return ', '.join(sorted(set(v.get('rules', []))))
        if meta.get('status') == 'retired':
            retired += 1
            alarms = sorted(p for p, v in res.items() if v.get('exit') == 1)
            out.append('| {} | {} | retired: its demonstration no longer fails on the repaired tree (see meta.json); still reported by {} | |'.format(sid, summary(sd), ', '.join(alarms) or 'nothing'))
            continue
        if meta.get('status') == 'neutralised':
            neutral += 1
            alarms = [p for p, v in res.items() if v.get('exit') == 1]
            owncol = 'neutralised by fix {} (harmless on the repaired tree): checker silent{}'.format(meta['neutralised_by'], '' if not alarms else ' **but alarms: ' + str(alarms) + '**')
            other = ''
        else:
            if (res.get(own) or {}).get('exit') == 1:
                caught += 1
                owncol = fmt(own)
            else:
                ex = (res.get(own) or {}).get('exit')
                owncol = ('withheld by the shape gate: own check `INCONCLUSIVE` (exit 2), section 10.7b' if ex == 2 and meta.get('status') == 'withheld' else '**missed** (exit {})'.format(ex))
            other = '; '.join('{}'.format(fmt(p)) for p in sorted(res) if p != own and res[p].get('exit') == 1)
            inc = [p for p in sorted(res) if res[p].get('exit') not in (0, 1)]
            if inc:
                other += (' ' if other else '') + '(inconclusive, exit 2: {})'.format(', '.join(inc))
        out.append('| {} | {} | {} | {} |'.format(sid, summary(sd), owncol, other))
    head = ('{} seeded changes: {} caught by the check of the property they were written against, {} neutralised by a later fix (checker silent, which is correct), '
            '{} retired (no longer demonstrated), {} not reported with exit 1 (the changes that restructure what they break: answered INCONCLUSIVE / exit 2, never silent; a row that says **missed** would be a silent miss).\n').format(n, caught, neutral, retired, n - caught - neutral - retired)
    return head + '\n' + '\n'.join(out)


def main():
    path = os.path.join(VERIF, 'DESIGN.md')
    text = open(path).read()
    def fixes():
        out = ['| commit | property | what failed (rule that now decides it) |', '|---|---|---|']
        n = 0
        for line in open(os.path.join(VERIF, 'KNOWN_FINDINGS.txt')):
            mm = re.match(r'^(fixed|known): property=(C\d\d) (\S+) (.*)$', line.strip())
            if mm:
                n += 1
                out.append('| {} | {} | {} |'.format(mm.group(3) if mm.group(1) == 'fixed' else 'KNOWN (open)', mm.group(2), mm.group(4).replace('|', '/')))
        return '{} lines.\n\n'.format(n) + '\n'.join(out)
    for name, body in (('obligations', obligations()), ('seed-matrix', seeds()), ('fixes', fixes())):
        b, e = '<!-- BEGIN generated:{} -->'.format(name), '<!-- END generated:{} -->'.format(name)
        if b not in text:
            raise SystemExit('marker missing: ' + b)
        text = text[:text.index(b) + len(b)] + '\n' + body + '\n' + text[text.index(e):]
    open(path, 'w').write(text)


if __name__ == '__main__':
    main()
