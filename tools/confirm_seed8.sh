#!/bin/sh
# usage: confirm_seed3.sh <Cxx> <A|B|C>   -- round 3: worktree /tmp/wt8/Cxx, deliverables /tmp/wt8/Cxx-out
p=$1; v=$2; wt=/tmp/wt8/$p; out=/tmp/wt8/$p-out; id=$p-r8$v
cd $wt || exit 2
git checkout -q -- src 2>/dev/null
[ -f $out/variant_$v.diff ] || { echo "$id MISSING"; exit 0; }
cp $out/*.py $wt/ 2>/dev/null
timeout 600 /venv/bin/python demo_$v.py >/tmp/seed8_$id.clean.log 2>&1; c=$?
git apply $out/variant_$v.diff || { echo "$id APPLY-FAILED"; exit 0; }
timeout 600 /venv/bin/python demo_$v.py >/tmp/seed8_$id.mut.log 2>&1; m=$?
t=$(/venv/bin/python -m pytest -q -p no:cacheprovider --timeout=900 --continue-on-collection-errors 2>&1 | tail -1 | sed 's/=//g')
git checkout -q -- src
echo "$id clean=$c mutated=$m pytest=[$t]"
