#!/bin/sh
# usage: tools/fixcheck.sh <demo-file> "<demo names>" "<props>"  : run demos, pinned tests and checks on the current /repo working tree
cd /verif
/venv/bin/python findings/demos/$1 $2 2>&1 | cut -c1-220
(cd /repo && /venv/bin/python -m pytest -q -p no:cacheprovider --timeout=900 --continue-on-collection-errors 2>&1 | tail -1)
for p in $3; do VERIF_EVIDENCE_DIR=/tmp/try_ev sa/run $p > /tmp/fix_$p.out 2>&1; echo "$p exit=$? $(grep -c '^KNOWN-FINDING' /tmp/fix_$p.out) known, stale: $(grep -c 'stale known' /tmp/fix_$p.out)"; grep -E "^VIOLATION|^    rule|ANALYSIS-ERROR|stale known" /tmp/fix_$p.out | cut -c1-220; done
