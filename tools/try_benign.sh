#!/bin/sh
# usage: tools/try_benign.sh <benign-id> <Cxx> [...]  -- apply a behaviour-preserving change to /repo, run quick checks, undo
id=$1; shift
cd /verif || exit 2
git -C /repo apply /verif/benign_seeded/$id/patch.diff || { echo "APPLY FAILED"; exit 2; }
for p in "$@"; do
  VERIF_EVIDENCE_DIR=/tmp/try_ev sa/run "$p" > /tmp/tryb_$p.out 2>&1; rc=$?
  echo "$id $p exit=$rc"; grep -E "^    rule|ANALYSIS-ERROR" /tmp/tryb_$p.out | head -8 | cut -c1-400
done
git -C /repo checkout -- .
